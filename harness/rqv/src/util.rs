//! Shared machinery: seeding, hashing, statistics/evidence, replay files, known findings,
//! panic capture, and the sharded proptest driver.

use proptest::strategy::{Strategy, ValueTree};
use proptest::test_runner::{Config, RngSeed, TestCaseError, TestError, TestRunner};
use rayon::prelude::*;
use serde_json::{json, Value};
use std::cell::RefCell;
use std::collections::{BTreeMap, HashSet};
use std::panic::{catch_unwind, AssertUnwindSafe};
use std::sync::atomic::{AtomicBool, Ordering};
use std::sync::Mutex;
use std::time::Instant;

pub const VERIF_DIR: &str = "/verif";

#[derive(Copy, Clone, Debug, PartialEq, Eq)]
pub enum Tier {
    Quick,
    Thorough,
}

impl Tier {
    pub fn name(self) -> &'static str {
        match self {
            Tier::Quick => "quick",
            Tier::Thorough => "thorough",
        }
    }
    pub fn pick<T>(self, quick: T, thorough: T) -> T {
        match self {
            Tier::Quick => quick,
            Tier::Thorough => thorough,
        }
    }
}

// ---------------------------------------------------------------------------------------------
// deterministic PRNG for expanding a generated seed into bulk content (data bytes, …)
// ---------------------------------------------------------------------------------------------

#[derive(Clone, Debug)]
pub struct SplitMix(pub u64);

impl SplitMix {
    pub fn new(seed: u64) -> Self {
        SplitMix(seed)
    }
    pub fn next_u64(&mut self) -> u64 {
        self.0 = self.0.wrapping_add(0x9E37_79B9_7F4A_7C15);
        let mut z = self.0;
        z = (z ^ (z >> 30)).wrapping_mul(0xBF58_476D_1CE4_E5B9);
        z = (z ^ (z >> 27)).wrapping_mul(0x94D0_49BB_1331_11EB);
        z ^ (z >> 31)
    }
    pub fn below(&mut self, n: u64) -> u64 {
        debug_assert!(n > 0);
        // multiply-shift; bias is irrelevant here (n << 2^64)
        ((self.next_u64() as u128 * n as u128) >> 64) as u64
    }
    pub fn range(&mut self, lo: u64, hi_incl: u64) -> u64 {
        lo + self.below(hi_incl - lo + 1)
    }
    pub fn fill(&mut self, buf: &mut [u8]) {
        for chunk in buf.chunks_mut(8) {
            let v = self.next_u64().to_le_bytes();
            chunk.copy_from_slice(&v[..chunk.len()]);
        }
    }
    pub fn bytes(&mut self, n: usize) -> Vec<u8> {
        let mut v = vec![0u8; n];
        self.fill(&mut v);
        v
    }
    pub fn shuffle<T>(&mut self, v: &mut [T]) {
        for i in (1..v.len()).rev() {
            let j = self.below(i as u64 + 1) as usize;
            v.swap(i, j);
        }
    }
}

pub fn mix(a: u64, b: u64) -> u64 {
    let mut s = SplitMix(a ^ b.rotate_left(32) ^ 0xD6E8_FEB8_6659_FD93);
    s.next_u64()
}

pub fn fnv64(bytes: &[u8]) -> u64 {
    let mut h: u64 = 0xcbf2_9ce4_8422_2325;
    for &b in bytes {
        h ^= b as u64;
        h = h.wrapping_mul(0x0000_0100_0000_01B3);
    }
    h
}

pub fn fnv_str(s: &str) -> u64 {
    fnv64(s.as_bytes())
}

pub fn fnv_u64s(v: &[u64]) -> u64 {
    let mut h: u64 = 0xcbf2_9ce4_8422_2325;
    for &x in v {
        for b in x.to_le_bytes() {
            h ^= b as u64;
            h = h.wrapping_mul(0x0000_0100_0000_01B3);
        }
    }
    h
}

/// Seed for (run seed, property, stream, shard).
pub fn derive_seed(seed: u64, prop: &str, stream: &str, shard: u64) -> u64 {
    mix(mix(mix(seed, fnv_str(prop)), fnv_str(stream)), shard)
}

// ---------------------------------------------------------------------------------------------
// SHA-256 (no crate available offline)
// ---------------------------------------------------------------------------------------------

const K256: [u32; 64] = [
    0x428a2f98, 0x71374491, 0xb5c0fbcf, 0xe9b5dba5, 0x3956c25b, 0x59f111f1, 0x923f82a4, 0xab1c5ed5,
    0xd807aa98, 0x12835b01, 0x243185be, 0x550c7dc3, 0x72be5d74, 0x80deb1fe, 0x9bdc06a7, 0xc19bf174,
    0xe49b69c1, 0xefbe4786, 0x0fc19dc6, 0x240ca1cc, 0x2de92c6f, 0x4a7484aa, 0x5cb0a9dc, 0x76f988da,
    0x983e5152, 0xa831c66d, 0xb00327c8, 0xbf597fc7, 0xc6e00bf3, 0xd5a79147, 0x06ca6351, 0x14292967,
    0x27b70a85, 0x2e1b2138, 0x4d2c6dfc, 0x53380d13, 0x650a7354, 0x766a0abb, 0x81c2c92e, 0x92722c85,
    0xa2bfe8a1, 0xa81a664b, 0xc24b8b70, 0xc76c51a3, 0xd192e819, 0xd6990624, 0xf40e3585, 0x106aa070,
    0x19a4c116, 0x1e376c08, 0x2748774c, 0x34b0bcb5, 0x391c0cb3, 0x4ed8aa4a, 0x5b9cca4f, 0x682e6ff3,
    0x748f82ee, 0x78a5636f, 0x84c87814, 0x8cc70208, 0x90befffa, 0xa4506ceb, 0xbef9a3f7, 0xc67178f2,
];

pub struct Sha256 {
    h: [u32; 8],
    buf: Vec<u8>,
    len: u64,
}

impl Default for Sha256 {
    fn default() -> Self {
        Self::new()
    }
}

impl Sha256 {
    pub fn new() -> Self {
        Sha256 {
            h: [
                0x6a09e667, 0xbb67ae85, 0x3c6ef372, 0xa54ff53a, 0x510e527f, 0x9b05688c, 0x1f83d9ab,
                0x5be0cd19,
            ],
            buf: Vec::with_capacity(64),
            len: 0,
        }
    }
    fn block(h: &mut [u32; 8], b: &[u8]) {
        let mut w = [0u32; 64];
        for i in 0..16 {
            w[i] = u32::from_be_bytes([b[4 * i], b[4 * i + 1], b[4 * i + 2], b[4 * i + 3]]);
        }
        for i in 16..64 {
            let s0 = w[i - 15].rotate_right(7) ^ w[i - 15].rotate_right(18) ^ (w[i - 15] >> 3);
            let s1 = w[i - 2].rotate_right(17) ^ w[i - 2].rotate_right(19) ^ (w[i - 2] >> 10);
            w[i] = w[i - 16]
                .wrapping_add(s0)
                .wrapping_add(w[i - 7])
                .wrapping_add(s1);
        }
        let mut v = *h;
        for i in 0..64 {
            let s1 = v[4].rotate_right(6) ^ v[4].rotate_right(11) ^ v[4].rotate_right(25);
            let ch = (v[4] & v[5]) ^ (!v[4] & v[6]);
            let t1 = v[7]
                .wrapping_add(s1)
                .wrapping_add(ch)
                .wrapping_add(K256[i])
                .wrapping_add(w[i]);
            let s0 = v[0].rotate_right(2) ^ v[0].rotate_right(13) ^ v[0].rotate_right(22);
            let maj = (v[0] & v[1]) ^ (v[0] & v[2]) ^ (v[1] & v[2]);
            let t2 = s0.wrapping_add(maj);
            v[7] = v[6];
            v[6] = v[5];
            v[5] = v[4];
            v[4] = v[3].wrapping_add(t1);
            v[3] = v[2];
            v[2] = v[1];
            v[1] = v[0];
            v[0] = t1.wrapping_add(t2);
        }
        for i in 0..8 {
            h[i] = h[i].wrapping_add(v[i]);
        }
    }
    pub fn update(&mut self, data: &[u8]) {
        self.len += data.len() as u64;
        let mut data = data;
        if !self.buf.is_empty() {
            let need = 64 - self.buf.len();
            let take = need.min(data.len());
            self.buf.extend_from_slice(&data[..take]);
            data = &data[take..];
            if self.buf.len() == 64 {
                let b = std::mem::take(&mut self.buf);
                Self::block(&mut self.h, &b);
            }
        }
        while data.len() >= 64 {
            Self::block(&mut self.h, &data[..64]);
            data = &data[64..];
        }
        self.buf.extend_from_slice(data);
    }
    pub fn finish(mut self) -> [u8; 32] {
        let bitlen = self.len.wrapping_mul(8);
        let mut pad = vec![0x80u8];
        while (self.buf.len() + pad.len()) % 64 != 56 {
            pad.push(0);
        }
        pad.extend_from_slice(&bitlen.to_be_bytes());
        let mut all = std::mem::take(&mut self.buf);
        all.extend_from_slice(&pad);
        for chunk in all.chunks(64) {
            Self::block(&mut self.h, chunk);
        }
        let mut out = [0u8; 32];
        for i in 0..8 {
            out[4 * i..4 * i + 4].copy_from_slice(&self.h[i].to_be_bytes());
        }
        out
    }
}

pub fn sha256_hex(data: &[u8]) -> String {
    let mut s = Sha256::new();
    s.update(data);
    hex(&s.finish())
}

pub fn hex(b: &[u8]) -> String {
    let mut s = String::with_capacity(b.len() * 2);
    for x in b {
        s.push_str(&format!("{:02x}", x));
    }
    s
}

pub fn unhex(s: &str) -> Vec<u8> {
    (0..s.len() / 2)
        .map(|i| u8::from_str_radix(&s[2 * i..2 * i + 2], 16).unwrap())
        .collect()
}

// ---------------------------------------------------------------------------------------------
// panic capture
// ---------------------------------------------------------------------------------------------

thread_local! {
    static LAST_PANIC: RefCell<Option<String>> = const { RefCell::new(None) };
}

/// Install a panic hook that records the message (with location) per thread instead of printing.
pub fn install_quiet_panic_hook() {
    std::panic::set_hook(Box::new(|info| {
        let msg = if let Some(s) = info.payload().downcast_ref::<&str>() {
            s.to_string()
        } else if let Some(s) = info.payload().downcast_ref::<String>() {
            s.clone()
        } else {
            "<non-string panic>".to_string()
        };
        let loc = info
            .location()
            .map(|l| format!("{}:{}", l.file(), l.line()))
            .unwrap_or_default();
        LAST_PANIC.with(|p| *p.borrow_mut() = Some(format!("{msg} @ {loc}")));
    }));
}

/// Run `f`, turning a panic into Err(message @ file:line).
pub fn catch<R>(f: impl FnOnce() -> R) -> Result<R, String> {
    match catch_unwind(AssertUnwindSafe(f)) {
        Ok(r) => Ok(r),
        Err(_) => Err(LAST_PANIC
            .with(|p| p.borrow_mut().take())
            .unwrap_or_else(|| "<panic>".to_string())),
    }
}

// ---------------------------------------------------------------------------------------------
// statistics / evidence
// ---------------------------------------------------------------------------------------------

#[derive(Default, Debug)]
pub struct Stats {
    pub evaluations: u64,
    pub classes: BTreeMap<String, u64>,
    pub nontrivial: HashSet<u64>,
    /// non-trivial cases that are distinct by construction (each tuple of an exhaustive
    /// enumeration is visited exactly once), counted in the enumeration loop
    pub nontrivial_enumerated: u64,
    pub samples: Vec<Value>,
    pub sample_cap: usize,
    frozen: bool,
}

impl Stats {
    pub fn new() -> Self {
        Stats {
            sample_cap: 6,
            ..Default::default()
        }
    }
    pub fn freeze(&mut self) {
        self.frozen = true;
    }
    pub fn eval(&mut self) {
        if !self.frozen {
            self.evaluations += 1;
        }
    }
    pub fn evals(&mut self, n: u64) {
        if !self.frozen {
            self.evaluations += n;
        }
    }
    pub fn class(&mut self, name: &str) {
        self.class_n(name, 1);
    }
    pub fn class_n(&mut self, name: &str, n: u64) {
        if !self.frozen {
            *self.classes.entry(name.to_string()).or_insert(0) += n;
        }
    }
    pub fn class_if(&mut self, cond: bool, name: &str) {
        if cond {
            self.class(name);
        }
    }
    /// Record a non-trivial case by fingerprint.
    pub fn nt(&mut self, fingerprint: u64) {
        if !self.frozen {
            self.nontrivial.insert(fingerprint);
        }
    }
    pub fn nt_enumerated(&mut self, n: u64) {
        if !self.frozen {
            self.nontrivial_enumerated += n;
        }
    }
    pub fn nt_total(&self) -> u64 {
        self.nontrivial.len() as u64 + self.nontrivial_enumerated
    }
    pub fn sample(&mut self, f: impl FnOnce() -> Value) {
        if !self.frozen && self.samples.len() < self.sample_cap {
            self.samples.push(f());
        }
    }
    pub fn merge(&mut self, other: Stats) {
        self.evaluations += other.evaluations;
        for (k, v) in other.classes {
            *self.classes.entry(k).or_insert(0) += v;
        }
        self.nontrivial.extend(other.nontrivial);
        self.nontrivial_enumerated += other.nontrivial_enumerated;
        for s in other.samples {
            if self.samples.len() < self.sample_cap.max(6) {
                self.samples.push(s);
            }
        }
    }
}

#[derive(Debug, Clone)]
pub struct Failure {
    pub property: String,
    /// sub-check name; used to dispatch replays
    pub sub: String,
    pub message: String,
    /// exact signature used for matching known findings
    pub signature: String,
    pub case: Value,
}

pub struct Report {
    pub property: &'static str,
    pub tier: Tier,
    pub seed: u64,
    pub stats: Stats,
    pub rule: String,
    pub assumptions: Vec<String>,
    pub exhaustive: bool,
    pub failures: Vec<Failure>,
    pub extra: BTreeMap<String, Value>,
    pub started: Instant,
    pub sub_stats: BTreeMap<String, Value>,
    /// write a partial result (merged later by the main run) instead of evidence
    pub partial_out: Option<String>,
    /// partial results of companion runs (other build profiles / engines) to merge in
    pub merge_files: Vec<String>,
}

impl Report {
    pub fn new(property: &'static str, tier: Tier, seed: u64) -> Self {
        Report {
            property,
            tier,
            seed,
            stats: Stats::new(),
            rule: String::new(),
            assumptions: vec![],
            exhaustive: false,
            failures: vec![],
            extra: BTreeMap::new(),
            started: Instant::now(),
            sub_stats: BTreeMap::new(),
            partial_out: None,
            merge_files: vec![],
        }
    }

    /// Merge the outcome of a sub-check.
    pub fn absorb(&mut self, name: &str, out: SubOutcome) {
        self.sub_stats.insert(
            name.to_string(),
            json!({
                "evaluations": out.stats.evaluations,
                "distinct_nontrivial": out.stats.nt_total(),
                "classes": out.stats.classes,
                "wall_s": out.wall_s,
            }),
        );
        // prefix class names with the sub-check name
        let mut st = out.stats;
        let classes = std::mem::take(&mut st.classes);
        for (k, v) in classes {
            st.classes.insert(format!("{name}/{k}"), v);
        }
        // make fingerprints distinct across sub-checks
        let salt = fnv_str(name);
        st.nontrivial = st.nontrivial.into_iter().map(|x| mix(x, salt)).collect();
        let mut tagged = Vec::new();
        for s in st.samples.drain(..).take(3) {
            tagged.push(json!({"sub": name, "case": s}));
        }
        st.samples = tagged;
        self.stats.sample_cap = 40;
        self.stats.merge(st);
        for mut f in out.failures {
            f.property = self.property.to_string();
            if f.sub.is_empty() {
                f.sub = name.to_string();
            }
            self.failures.push(f);
        }
    }
}

pub struct SubOutcome {
    pub stats: Stats,
    pub failures: Vec<Failure>,
    pub wall_s: f64,
}

impl SubOutcome {
    pub fn ok(stats: Stats, started: Instant) -> Self {
        SubOutcome {
            stats,
            failures: vec![],
            wall_s: started.elapsed().as_secs_f64(),
        }
    }
}

// ---------------------------------------------------------------------------------------------
// known findings
// ---------------------------------------------------------------------------------------------

#[derive(Debug, Clone)]
pub struct KnownFinding {
    pub status: String, // "known" | "fixed"
    pub property: String,
    pub signature: String,
    pub description: String,
}

pub fn load_known_findings() -> Vec<KnownFinding> {
    let path = format!("{VERIF_DIR}/known_findings.jsonl");
    let mut out = vec![];
    if let Ok(text) = std::fs::read_to_string(path) {
        for line in text.lines() {
            let line = line.trim();
            if line.is_empty() || line.starts_with('#') {
                continue;
            }
            if let Ok(v) = serde_json::from_str::<Value>(line) {
                out.push(KnownFinding {
                    status: v["status"].as_str().unwrap_or("").to_string(),
                    property: v["property"].as_str().unwrap_or("").to_string(),
                    signature: v["signature"].as_str().unwrap_or("").to_string(),
                    description: v["description"].as_str().unwrap_or("").to_string(),
                });
            }
        }
    }
    out
}

// ---------------------------------------------------------------------------------------------
// finishing a run: evidence file, replay files, exit code
// ---------------------------------------------------------------------------------------------

pub fn write_replay(f: &Failure) -> String {
    let dir = format!("{VERIF_DIR}/replays");
    let _ = std::fs::create_dir_all(&dir);
    let body = json!({
        "property": f.property,
        "sub": f.sub,
        "message": f.message,
        "signature": f.signature,
        "case": f.case,
    });
    let text = serde_json::to_string_pretty(&body).unwrap();
    let id = fnv64(serde_json::to_string(&json!([f.sub, f.case])).unwrap().as_bytes());
    let path = format!("{dir}/{}-{:016x}.json", f.property, id);
    let _ = std::fs::write(&path, text);
    path
}

/// Writes evidence, prints VIOLATION / KNOWN-FINDING lines, returns the process exit code.
pub fn finish(mut rep: Report) -> i32 {
    if let Some(path) = rep.partial_out.clone() {
        let fails: Vec<Value> = rep
            .failures
            .iter()
            .map(|f| json!({"sub": f.sub, "message": f.message, "signature": f.signature, "case": f.case}))
            .collect();
        let body = json!({
            "evaluations": rep.stats.evaluations,
            "distinct_nontrivial": rep.stats.nt_total(),
            "classes": rep.stats.classes,
            "samples": rep.stats.samples,
            "sub_checks": rep.sub_stats,
            "failures": fails,
            "wall_s": rep.started.elapsed().as_secs_f64(),
        });
        std::fs::write(&path, serde_json::to_string_pretty(&body).unwrap()).expect("write partial");
        println!(
            "{} partial -> {} evaluations={} failures={}",
            rep.property,
            path,
            rep.stats.evaluations,
            rep.failures.len()
        );
        return 0;
    }
    for path in rep.merge_files.clone() {
        let tag = std::path::Path::new(&path)
            .file_stem()
            .map(|s| s.to_string_lossy().to_string())
            .unwrap_or_default();
        let Ok(text) = std::fs::read_to_string(&path) else {
            eprintln!("INCONCLUSIVE: companion result {path} missing");
            return 2;
        };
        let v: Value = serde_json::from_str(&text).unwrap_or(Value::Null);
        rep.stats.evaluations += v["evaluations"].as_u64().unwrap_or(0);
        rep.stats.nontrivial_enumerated += v["distinct_nontrivial"].as_u64().unwrap_or(0);
        if let Some(m) = v["classes"].as_object() {
            for (k, n) in m {
                *rep.stats.classes.entry(format!("{tag}:{k}")).or_insert(0) += n.as_u64().unwrap_or(0);
            }
        }
        if let Some(m) = v["sub_checks"].as_object() {
            for (k, n) in m {
                rep.sub_stats.insert(format!("{tag}:{k}"), n.clone());
            }
        }
        if let Some(a) = v["samples"].as_array() {
            for s in a.iter().take(3) {
                rep.stats.samples.push(json!({"companion": tag, "sample": s}));
            }
        }
        if let Some(a) = v["failures"].as_array() {
            for f in a {
                rep.failures.push(Failure {
                    property: rep.property.to_string(),
                    sub: f["sub"].as_str().unwrap_or("").to_string(),
                    message: format!("[{tag}] {}", f["message"].as_str().unwrap_or("")),
                    signature: f["signature"].as_str().unwrap_or("").to_string(),
                    case: f["case"].clone(),
                });
            }
        }
    }
    let known = load_known_findings();
    let mut violations = 0;
    let mut known_hits: Vec<String> = vec![];
    let mut seen = HashSet::new();
    let failures = std::mem::take(&mut rep.failures);
    for f in &failures {
        let is_known = known
            .iter()
            .any(|k| k.status == "known" && k.property == f.property && k.signature == f.signature);
        if is_known {
            if seen.insert(f.signature.clone()) {
                println!(
                    "KNOWN-FINDING: property={} {} [{}]",
                    f.property, f.signature, f.message
                );
                known_hits.push(f.signature.clone());
            }
            continue;
        }
        let path = write_replay(f);
        println!("VIOLATION property={} replay={}", f.property, path);
        println!("  sub={} signature={}", f.sub, f.signature);
        println!("  {}", f.message);
        violations += 1;
    }
    let wall = rep.started.elapsed().as_secs_f64();
    let mut coverage = serde_json::Map::new();
    coverage.insert("evaluations".into(), json!(rep.stats.evaluations));
    coverage.insert(
        "distinct_nontrivial".into(),
        json!(rep.stats.nt_total()),
    );
    coverage.insert("rule".into(), json!(rep.rule));
    coverage.insert("samples".into(), json!(rep.stats.samples));
    coverage.insert("classes".into(), json!(rep.stats.classes));
    coverage.insert("exhaustive".into(), json!(rep.exhaustive));
    coverage.insert("sub_checks".into(), json!(rep.sub_stats));
    coverage.insert("known_findings_hit".into(), json!(known_hits));
    for (k, v) in rep.extra {
        coverage.insert(k, v);
    }
    let ev = json!({
        "property_id": rep.property,
        "tier": rep.tier.name(),
        "seed": rep.seed,
        "level": "exploration",
        "coverage": Value::Object(coverage),
        "assumptions": rep.assumptions,
        "wall_s": wall,
        "violations": violations,
    });
    let dir = format!("{VERIF_DIR}/evidence");
    let _ = std::fs::create_dir_all(&dir);
    let path = format!("{dir}/{}.json", rep.property);
    std::fs::write(&path, serde_json::to_string_pretty(&ev).unwrap()).expect("write evidence");
    println!(
        "{} tier={} seed={} evaluations={} distinct_nontrivial={} violations={} wall={:.1}s",
        rep.property,
        rep.tier.name(),
        rep.seed,
        rep.stats.evaluations,
        rep.stats.nt_total(),
        violations,
        wall
    );
    if violations > 0 {
        1
    } else {
        0
    }
}

// ---------------------------------------------------------------------------------------------
// sharded proptest driver
// ---------------------------------------------------------------------------------------------

/// What a property closure reports for one case.
pub type CaseResult = Result<(), String>;

/// Runs `cases` generated cases split over `shards` independent TestRunners (each with a seed
/// derived from (seed, property, stream, shard)). The closure gets the case and a per-shard
/// `Stats`. The first failing shard (lowest index) provides the shrunk failure.
pub fn run_sharded<S, FS, FT>(
    prop: &str,
    stream: &str,
    seed: u64,
    cases: u64,
    shards: u64,
    make_strategy: FS,
    test: FT,
    to_json: impl Fn(&S::Value) -> Value + Sync,
    signature: impl Fn(&S::Value, &str) -> String + Sync,
) -> SubOutcome
where
    S: Strategy,
    S::Value: std::fmt::Debug,
    FS: Fn() -> S + Sync,
    FT: Fn(&S::Value, &mut Stats) -> CaseResult + Sync,
{
    let started = Instant::now();
    let shards = shards.max(1).min(cases.max(1));
    let stop = AtomicBool::new(false);
    let results: Vec<(Stats, Option<Failure>)> = (0..shards)
        .into_par_iter()
        .map(|shard| {
            let n = cases / shards + if shard < cases % shards { 1 } else { 0 };
            let stats = RefCell::new(Stats::new());
            if n == 0 || stop.load(Ordering::Relaxed) {
                return (stats.into_inner(), None);
            }
            let config = Config {
                cases: n as u32,
                failure_persistence: None,
                rng_seed: RngSeed::Fixed(derive_seed(seed, prop, stream, shard)),
                max_shrink_iters: 2000,
                max_local_rejects: 1_000_000,
                max_global_rejects: 1_000_000,
                ..Config::default()
            };
            let mut runner = TestRunner::new(config);
            let strategy = make_strategy();
            let failed_once = std::cell::Cell::new(false);
            let res = runner.run(&strategy, |value| {
                if stop.load(Ordering::Relaxed) && !failed_once.get() {
                    // another shard already failed: finish quickly
                    return Ok(());
                }
                let r = {
                    let mut st = stats.borrow_mut();
                    st.eval();
                    match catch(|| test(&value, &mut st)) {
                        Ok(r) => r,
                        Err(p) => Err(format!("panic: {p}")),
                    }
                };
                match r {
                    Ok(()) => Ok(()),
                    Err(msg) => {
                        failed_once.set(true);
                        stats.borrow_mut().freeze();
                        stop.store(true, Ordering::Relaxed);
                        Err(TestCaseError::fail(msg))
                    }
                }
            });
            let fail = match res {
                Ok(()) => None,
                Err(TestError::Fail(reason, value)) => {
                    let msg = reason.message().to_string();
                    Some(Failure {
                        property: prop.to_string(),
                        sub: stream.to_string(),
                        signature: signature(&value, &msg),
                        message: msg,
                        case: to_json(&value),
                    })
                }
                Err(TestError::Abort(reason)) => {
                    // generator health problem: not a violation; surfaced as a class
                    stats
                        .borrow_mut()
                        .classes
                        .insert(format!("ABORTED:{}", reason.message()), 1);
                    None
                }
            };
            (stats.into_inner(), fail)
        })
        .collect();
    let mut stats = Stats::new();
    let mut failures = vec![];
    for (st, fail) in results {
        stats.merge(st);
        if let Some(f) = fail {
            if failures.is_empty() {
                failures.push(f);
            }
        }
    }
    SubOutcome {
        stats,
        failures,
        wall_s: started.elapsed().as_secs_f64(),
    }
}

/// Parallel map over an explicit list of work items with per-item Stats; collects failures.
pub fn run_items<T: Sync, F>(items: &[T], f: F) -> SubOutcome
where
    F: Fn(&T, &mut Stats) -> Result<(), Failure> + Sync,
{
    let started = Instant::now();
    let merged = Mutex::new((Stats::new(), Vec::<Failure>::new()));
    items.par_iter().for_each(|item| {
        let mut st = Stats::new();
        let r = match catch(|| f(item, &mut st)) {
            Ok(r) => r,
            Err(p) => Err(Failure {
                property: String::new(),
                sub: String::new(),
                message: format!("panic: {p}"),
                signature: format!("panic:{p}"),
                case: Value::Null,
            }),
        };
        let mut g = merged.lock().unwrap();
        g.0.merge(st);
        if let Err(fl) = r {
            g.1.push(fl);
        }
    });
    let (stats, failures) = merged.into_inner().unwrap();
    SubOutcome {
        stats,
        failures,
        wall_s: started.elapsed().as_secs_f64(),
    }
}

/// Draw one value from a strategy with a deterministic runner (for sampling outside `run`).
pub fn draw<S: Strategy>(strategy: &S, seed: u64) -> S::Value {
    let config = Config {
        failure_persistence: None,
        rng_seed: RngSeed::Fixed(seed),
        ..Config::default()
    };
    let mut runner = TestRunner::new(config);
    strategy.new_tree(&mut runner).unwrap().current()
}

pub fn simple_failure(sub: &str, message: String, signature: String, case: Value) -> Failure {
    Failure {
        property: String::new(),
        sub: sub.to_string(),
        message,
        signature,
        case,
    }
}

//! C16 — dense and sparse binary matrices implement the same abstract matrix.
//! Model-based: a generated operation sequence is interpreted against a plain tri-state bit
//! array; the next admissible operation is chosen by the model, so every sequence respects the
//! preconditions asserted in sparse_matrix.rs (three-phase protocol: construction, indexed,
//! un-indexed).

use crate::util::{catch, fnv_u64s, run_sharded, Report, Stats};
use crate::Ctx;
use proptest::prelude::*;
use raptorq::verif::verif_kernels as vk;
use raptorq::verif::{BinaryMatrix, DenseBinaryMatrix, Octet, SparseBinaryMatrix};
use serde_json::{json, Value};
use std::collections::BTreeSet;

#[derive(Copy, Clone, Debug, PartialEq, Eq)]
enum Tri {
    Zero,
    One,
    Undef,
}

#[derive(Copy, Clone, Debug, PartialEq, Eq)]
enum Phase {
    Construction,
    Indexed,
    Unindexed,
}

#[derive(Debug, Clone)]
pub struct RawOp {
    kind: u8,
    a: u16,
    b: u16,
    c: u16,
    d: u16,
}

#[derive(Debug, Clone)]
pub struct Case {
    width: usize,
    extra_height: usize,
    dense_hint: usize,
    density: u8,
    fill_seed: u64,
    ops: Vec<RawOp>,
}

fn strategy() -> impl Strategy<Value = Case> {
    let width = prop_oneof![3 => 2usize..=200, 2 => 63usize..=66, 2 => 127usize..=140, 2 => 191usize..=200, 1 => 130usize..=260];
    (
        width,
        0usize..=70,
        any::<u16>(),
        0u8..8,
        any::<u64>(),
        proptest::collection::vec((any::<u8>(), raw16(), raw16(), raw16(), raw16()).prop_map(|(kind, a, b, c, d)| RawOp { kind, a, b, c, d }), 1..140),
    )
        .prop_map(|(width, extra_height, rh, density, fill_seed, ops)| {
            // trailing dense hint P in 1..=width-1, weighted to just below the 64-, 128- and
            // 192-column boundaries so that a few freezes grow the tail into a 2nd, 3rd, 4th word
            let pmax = (width - 1).max(1);
            let r = rh as usize >> 3;
            let dense_hint = match rh % 8 {
                0 => 1 + r % pmax,
                1 | 2 => 61 + r % 4,
                3 | 4 => 125 + r % 4,
                5 => 189 + r % 4,
                6 => 1,
                _ => 1 + r % pmax.min(70),
            }
            .clamp(1, pmax);
            Case { width, extra_height, dense_hint, density, fill_seed, ops }
        })
}

/// raw parameter: uniform, with extra weight on the extremes (first/last row, column, full range)
fn raw16() -> impl Strategy<Value = u16> {
    prop_oneof![6 => any::<u16>(), 1 => Just(0u16), 1 => Just(u16::MAX)]
}

fn pick(raw: u16, n: usize) -> usize {
    // monotone map of a raw 16-bit value onto 0..n
    ((raw as usize) * n) >> 16
}

struct World {
    model: Vec<Vec<Tri>>,
    dense: DenseBinaryMatrix,
    sparse: SparseBinaryMatrix,
    h: usize,
    w: usize,
    num_dense: usize,
    phase: Phase,
    /// indexed columns still valid for column queries (by logical position)
    col_valid: Vec<bool>,
}

fn oct(v: Tri) -> Octet {
    if v == Tri::One {
        Octet::one()
    } else {
        Octet::zero()
    }
}

impl World {
    fn first_dense(&self) -> usize {
        self.w - self.num_dense
    }
    fn defined(&self, row: usize, s: usize, e: usize) -> bool {
        self.model[row][s..e].iter().all(|&c| c != Tri::Undef)
    }
    fn ones(&self, row: usize, s: usize, e: usize) -> BTreeSet<usize> {
        (s..e).filter(|&c| self.model[row][c] == Tri::One).collect()
    }
}

#[derive(Default)]
struct Counters {
    ops: u64,
    skipped_undefined: u64,
    queries: u64,
    freezes: u32,
    freeze_cross_word: u32,
    resizes: u32,
    row_swaps: u32,
    col_swap_after_row_swap: u32,
    col_swaps: u32,
    pivot_elims: u32,
    partial_adds: u32,
    full_adds: u32,
    col_queries: u32,
    sub_rows: u32,
    dense_only_queries: u32,
}

fn both<R: PartialEq + std::fmt::Debug>(name: &str, fd: impl FnOnce() -> R, fs: impl FnOnce() -> R) -> Result<(R, R), String> {
    let d = catch(fd).map_err(|p| format!("{name}: DenseBinaryMatrix panicked on an admissible operation: {p}"))?;
    let s = catch(fs).map_err(|p| format!("{name}: SparseBinaryMatrix panicked on an admissible operation: {p}"))?;
    Ok((d, s))
}

fn unpack(v: &raptorq::verif::BinaryOctetVec) -> Vec<u8> {
    // harness-side unpacking from the documented layout (not the crate's unpacker)
    let (words, len) = vk::raw(v);
    let padding = (64 - len % 64) % 64;
    (0..len).map(|k| ((words[(padding + k) / 64] >> ((padding + k) % 64)) & 1) as u8).collect()
}

fn check(c: &Case, st: &mut Stats) -> Result<(), String> {
    let w = c.width;
    let h = w + c.extra_height;
    let mut rng = crate::util::SplitMix::new(c.fill_seed);
    let mut world = World {
        model: vec![vec![Tri::Zero; w]; h],
        dense: DenseBinaryMatrix::new(h, w, c.dense_hint),
        sparse: SparseBinaryMatrix::new(h, w, c.dense_hint),
        h,
        w,
        num_dense: c.dense_hint,
        phase: Phase::Construction,
        col_valid: vec![true; w],
    };
    // initial fill through `set` with a generated density
    // (density & 3 = ones per row; density & 4 = additionally 1..=3 heavy columns set in most
    // rows, as the LDPC/HDPC-adjacent columns of a real constraint matrix are: column lists far
    // longer than the mean)
    let per_row = match c.density & 3 {
        0 => 1,
        1 => 3,
        2 => (w / 8).max(2),
        _ => (w / 2).max(2),
    };
    for r in 0..h {
        for _ in 0..per_row {
            let col = rng.below(w as u64) as usize;
            let v = if rng.below(8) == 0 { Tri::Zero } else { Tri::One };
            world.model[r][col] = v;
            world.dense.set(r, col, oct(v));
            world.sparse.set(r, col, oct(v));
        }
    }
    let heavy_cols = c.density & 4 != 0;
    if heavy_cols {
        for _ in 0..1 + rng.below(3) {
            let col = rng.below(w as u64) as usize;
            for r in 0..h {
                if rng.below(8) != 0 {
                    world.model[r][col] = Tri::One;
                    world.dense.set(r, col, Octet::one());
                    world.sparse.set(r, col, Octet::one());
                }
            }
        }
    }
    let mut k = Counters::default();
    let mut row_swapped = false;
    for (n, op) in c.ops.iter().enumerate() {
        k.ops += 1;
        let (h, w) = (world.h, world.w);
        let fd = world.first_dense();
        let sparse_cols = fd; // columns 0..fd are in the sparse part
        // --- choose an admissible operation from the raw descriptor --------------------------
        let kind = op.kind % 20;
        let name: String;
        match kind {
            // phase transitions
            // (the column index builder asserts that the sparse part holds at least one entry)
            0 if world.phase == Phase::Construction && (0..h).any(|r| !world.ones(r, 0, fd).is_empty()) => {
                name = format!("op {n}: enable_column_access_acceleration");
                both(&name, || world.dense.enable_column_access_acceleration(), || world.sparse.enable_column_access_acceleration())?;
                world.phase = Phase::Indexed;
                world.col_valid = vec![true; w];
            }
            0 | 1 if world.phase == Phase::Indexed && op.a % 4 == 0 => {
                name = format!("op {n}: disable_column_access_acceleration");
                both(&name, || world.dense.disable_column_access_acceleration(), || world.sparse.disable_column_access_acceleration())?;
                world.phase = Phase::Unindexed;
            }
            // set
            2 | 3 => {
                let row = pick(op.a, h);
                // in the indexed phase only the dense part may be written
                let col = if world.phase == Phase::Indexed { fd + pick(op.b, world.num_dense) } else { pick(op.b, w) };
                let v = if op.c % 3 == 0 { Tri::Zero } else { Tri::One };
                name = format!("op {n}: set({row},{col},{v:?})");
                both(&name, || world.dense.set(row, col, oct(v)), || world.sparse.set(row, col, oct(v)))?;
                world.model[row][col] = v;
            }
            // swap rows
            4 | 5 => {
                let (i, j) = (pick(op.a, h), pick(op.b, h));
                name = format!("op {n}: swap_rows({i},{j})");
                both(&name, || world.dense.swap_rows(i, j), || world.sparse.swap_rows(i, j))?;
                world.model.swap(i, j);
                k.row_swaps += 1;
                row_swapped = true;
            }
            // swap columns within the sparse part
            6 | 7 if sparse_cols >= 2 => {
                let (i, j) = (pick(op.a, sparse_cols), pick(op.b, sparse_cols));
                // largest valid start_row_hint <= requested: all earlier rows identical & defined
                let want = if op.c % 2 == 0 { 0 } else { pick(op.d, h + 1) };
                let mut hint = 0;
                while hint < want && world.model[hint][i] == world.model[hint][j] && world.model[hint][i] != Tri::Undef {
                    hint += 1;
                }
                name = format!("op {n}: swap_columns({i},{j},{hint})");
                both(&name, || world.dense.swap_columns(i, j, hint), || world.sparse.swap_columns(i, j, hint))?;
                for r in 0..h {
                    world.model[r].swap(i, j);
                }
                world.col_valid.swap(i, j);
                k.col_swaps += 1;
                if row_swapped {
                    k.col_swap_after_row_swap += 1;
                }
            }
            // freeze the last sparse column into the dense tail (indexed phase)
            8 | 9 if world.phase == Phase::Indexed && sparse_cols >= 2 => {
                let col = fd - 1;
                name = format!("op {n}: hint_column_dense_and_frozen({col})");
                both(&name, || world.dense.hint_column_dense_and_frozen(col), || world.sparse.hint_column_dense_and_frozen(col))?;
                if world.num_dense % 64 == 0 {
                    k.freeze_cross_word += 1;
                }
                world.num_dense += 1;
                k.freezes += 1;
            }
            // row additions
            10 | 11 | 12 => {
                let (dest, src) = (pick(op.a, h), pick(op.b, h));
                if dest == src {
                    continue;
                }
                if world.phase == Phase::Indexed {
                    // pivot elimination (start_col 0): src has a single one in the sparse part,
                    // everything relevant defined, dest has that column set
                    // look for an admissible pivot pair starting from the generated picks
                    let (mut dest, mut src) = (dest, src);
                    if op.c % 2 == 0 {
                        'search: for ds in 0..h {
                            let s2 = (src + ds) % h;
                            if !world.defined(s2, 0, fd) {
                                continue;
                            }
                            let o = world.ones(s2, 0, fd);
                            if o.len() != 1 {
                                continue;
                            }
                            let pc = *o.iter().next().unwrap();
                            for dd in 0..h {
                                let d2 = (dest + dd) % h;
                                if d2 != s2 && world.model[d2][pc] == Tri::One {
                                    dest = d2;
                                    src = s2;
                                    break 'search;
                                }
                            }
                        }
                    }
                    let src_ones = world.ones(src, 0, fd);
                    let pivot_ok = op.c % 2 == 0
                        && dest != src
                        && world.defined(src, 0, fd)
                        && src_ones.len() == 1
                        && world.model[dest][*src_ones.iter().next().unwrap()] == Tri::One;
                    if pivot_ok {
                        let pc = *src_ones.iter().next().unwrap();
                        name = format!("op {n}: add_assign_rows({dest},{src},0) [pivot elimination of column {pc}]");
                        both(&name, || world.dense.add_assign_rows(dest, src, 0), || world.sparse.add_assign_rows(dest, src, 0))?;
                        world.model[dest][pc] = Tri::Zero;
                        for cc in fd..w {
                            world.model[dest][cc] = xor(world.model[dest][cc], world.model[src][cc]);
                        }
                        world.col_valid[pc] = false;
                        k.pivot_elims += 1;
                    } else {
                        name = format!("op {n}: add_assign_rows({dest},{src},{fd}) [dense part only]");
                        both(&name, || world.dense.add_assign_rows(dest, src, fd), || world.sparse.add_assign_rows(dest, src, fd))?;
                        partial_add(&mut world, dest, src, fd);
                        k.partial_adds += 1;
                    }
                } else if op.c % 3 == 0 && world.num_dense > 0 {
                    name = format!("op {n}: add_assign_rows({dest},{src},{fd}) [dense part only]");
                    both(&name, || world.dense.add_assign_rows(dest, src, fd), || world.sparse.add_assign_rows(dest, src, fd))?;
                    partial_add(&mut world, dest, src, fd);
                    k.partial_adds += 1;
                } else {
                    name = format!("op {n}: add_assign_rows({dest},{src},0)");
                    both(&name, || world.dense.add_assign_rows(dest, src, 0), || world.sparse.add_assign_rows(dest, src, 0))?;
                    for cc in 0..w {
                        world.model[dest][cc] = xor(world.model[dest][cc], world.model[src][cc]);
                    }
                    k.full_adds += 1;
                }
            }
            // resize (un-indexed phase): shrink height; keep width or drop at least the dense tail
            13 if world.phase == Phase::Unindexed => {
                let new_w = if op.a % 2 == 0 || fd < 2 {
                    w
                } else if op.d % 3 == 0 && fd >= 64 {
                    // exactly a multiple of the word size
                    64 * (1 + pick(op.b, fd / 64))
                } else {
                    1 + pick(op.b, fd)
                };
                let min_h = new_w; // keep height >= width
                let new_h = min_h + pick(op.c, h - min_h + 1);
                name = format!("op {n}: resize({new_h},{new_w})");
                both(&name, || world.dense.resize(new_h, new_w), || world.sparse.resize(new_h, new_w))?;
                world.model.truncate(new_h);
                for r in world.model.iter_mut() {
                    r.truncate(new_w);
                }
                world.h = new_h;
                if new_w != w {
                    world.num_dense = 0;
                }
                world.w = new_w;
                world.col_valid.truncate(new_w);
                k.resizes += 1;
            }
            // --- queries ---------------------------------------------------------------------
            // count_ones / row iteration over the sparse part
            14 | 15 if sparse_cols >= 1 => {
                let row = pick(op.a, h);
                let s = pick(op.b, sparse_cols + 1);
                let e = s + pick(op.c, sparse_cols - s + 1);
                k.queries += 1;
                if !world.defined(row, s, e) {
                    k.skipped_undefined += 1;
                    continue;
                }
                let want = world.ones(row, s, e);
                if kind == 14 {
                    name = format!("op {n}: count_ones({row},{s},{e})");
                    let (d, sp) = both(&name, || world.dense.count_ones(row, s, e), || world.sparse.count_ones(row, s, e))?;
                    if d != want.len() || sp != want.len() {
                        return Err(format!("{name}: dense {d}, sparse {sp}, model {}", want.len()));
                    }
                } else {
                    name = format!("op {n}: get_row_iter({row},{s},{e})");
                    let (d, sp) = both(
                        &name,
                        || world.dense.get_row_iter(row, s, e).filter(|(_, v)| *v == Octet::one()).map(|(cidx, _)| cidx).collect::<BTreeSet<usize>>(),
                        || world.sparse.get_row_iter(row, s, e).filter(|(_, v)| *v == Octet::one()).map(|(cidx, _)| cidx).collect::<BTreeSet<usize>>(),
                    )?;
                    if d != want || sp != want {
                        return Err(format!("{name}: ones differ: dense {d:?}, sparse {sp:?}, model {want:?}"));
                    }
                    // the cloned iterator must agree as well
                    let (d2, s2) = both(
                        &name,
                        || world.dense.get_row_iter(row, s, e).clone().filter(|(_, v)| *v == Octet::one()).map(|(cidx, _)| cidx).collect::<BTreeSet<usize>>(),
                        || world.sparse.get_row_iter(row, s, e).clone().filter(|(_, v)| *v == Octet::one()).map(|(cidx, _)| cidx).collect::<BTreeSet<usize>>(),
                    )?;
                    if d2 != want || s2 != want {
                        return Err(format!("{name}: cloned iterator differs: dense {d2:?}, sparse {s2:?}, model {want:?}"));
                    }
                }
            }
            // ones in a still-valid indexed column
            16 if world.phase == Phase::Indexed && sparse_cols >= 1 => {
                let col = pick(op.a, sparse_cols);
                let sr = pick(op.b, h + 1);
                let er = sr + pick(op.c, h - sr + 1);
                k.queries += 1;
                if !world.col_valid[col] || (sr..er).any(|r| world.model[r][col] == Tri::Undef) {
                    k.skipped_undefined += 1;
                    continue;
                }
                name = format!("op {n}: get_ones_in_column({col},{sr},{er})");
                let want: BTreeSet<u32> = (sr..er).filter(|&r| world.model[r][col] == Tri::One).map(|r| r as u32).collect();
                let (d, sp) = both(
                    &name,
                    || world.dense.get_ones_in_column(col, sr, er).into_iter().collect::<BTreeSet<u32>>(),
                    || world.sparse.get_ones_in_column(col, sr, er).into_iter().collect::<BTreeSet<u32>>(),
                )?;
                if d != want || sp != want {
                    return Err(format!("{name}: dense {d:?}, sparse {sp:?}, model {want:?}"));
                }
                k.col_queries += 1;
            }
            // packed sub-row / non-zero columns of the DENSE matrix from an arbitrary start column:
            // the dense implementation states no precondition on start_col (the sparse one
            // accepts the first dense column only), so every start column is inside the interface
            // for it - in particular after a narrowing resize, when no dense tail is left
            17 | 18 if world.num_dense == 0 || op.d % 4 == 0 => {
                let row = pick(op.a, h);
                let sc = match op.c % 4 {
                    0 => w - (op.b as usize % (w.min(66) + 1)),
                    1 => (w / 64) * 64,
                    _ => pick(op.b, w + 1),
                };
                k.queries += 1;
                if !world.defined(row, sc, w) {
                    k.skipped_undefined += 1;
                    continue;
                }
                if kind == 17 {
                    name = format!("op {n}: dense get_sub_row_as_octets({row},{sc})");
                    let want: Vec<u8> = (sc..w).map(|cc| (world.model[row][cc] == Tri::One) as u8).collect();
                    let d = catch(|| unpack(&world.dense.get_sub_row_as_octets(row, sc))).map_err(|p| format!("{name}: dense panicked: {p}"))?;
                    if d != want {
                        return Err(format!("{name}: dense {d:?}, model {want:?}"));
                    }
                } else {
                    name = format!("op {n}: dense query_non_zero_columns({row},{sc})");
                    let want: Vec<usize> = (sc..w).filter(|&cc| world.model[row][cc] == Tri::One).collect();
                    let mut d = catch(|| world.dense.query_non_zero_columns(row, sc)).map_err(|p| format!("{name}: dense panicked: {p}"))?;
                    d.sort_unstable();
                    if d != want {
                        return Err(format!("{name}: dense {d:?}, model {want:?}"));
                    }
                }
                k.dense_only_queries += 1;
            }
            // packed sub-row / non-zero columns at the first dense column
            17 | 18 if world.num_dense >= 1 => {
                let row = pick(op.a, h);
                k.queries += 1;
                // a frozen column may carry undefined cells from an earlier partial addition
                if !world.defined(row, fd, w) {
                    k.skipped_undefined += 1;
                    continue;
                }
                let want: Vec<u8> = (fd..w).map(|cc| (world.model[row][cc] == Tri::One) as u8).collect();
                if kind == 17 {
                    name = format!("op {n}: get_sub_row_as_octets({row},{fd})");
                    let (d, sp) = both(&name, || unpack(&world.dense.get_sub_row_as_octets(row, fd)), || unpack(&world.sparse.get_sub_row_as_octets(row, fd)))?;
                    if d != want || sp != want {
                        return Err(format!("{name}: dense {d:?}, sparse {sp:?}, model {want:?}"));
                    }
                    k.sub_rows += 1;
                } else {
                    name = format!("op {n}: query_non_zero_columns({row},{fd})");
                    let want: BTreeSet<usize> = (fd..w).filter(|&cc| world.model[row][cc] == Tri::One).collect();
                    let (d, sp) = both(
                        &name,
                        || world.dense.query_non_zero_columns(row, fd).into_iter().collect::<BTreeSet<usize>>(),
                        || world.sparse.query_non_zero_columns(row, fd).into_iter().collect::<BTreeSet<usize>>(),
                    )?;
                    if d != want || sp != want {
                        return Err(format!("{name}: dense {d:?}, sparse {sp:?}, model {want:?}"));
                    }
                }
            }
            // get anywhere (default)
            _ => {
                let (row, col) = (pick(op.a, h), pick(op.b, w));
                k.queries += 1;
                if world.model[row][col] == Tri::Undef {
                    k.skipped_undefined += 1;
                    continue;
                }
                name = format!("op {n}: get({row},{col})");
                let (d, sp) = both(&name, || world.dense.get(row, col), || world.sparse.get(row, col))?;
                let want = oct(world.model[row][col]);
                if d != want || sp != want {
                    return Err(format!("{name}: dense {d:?}, sparse {sp:?}, model {want:?}"));
                }
            }
        }
        if world.dense.height() != world.h || world.sparse.height() != world.h || world.dense.width() != world.w || world.sparse.width() != world.w {
            return Err(format!("after op {n}: dimensions differ from the model ({}x{})", world.h, world.w));
        }
    }
    // final full scan of every defined cell
    for r in 0..world.h {
        for cc in 0..world.w {
            if world.model[r][cc] == Tri::Undef {
                continue;
            }
            let want = oct(world.model[r][cc]);
            let (d, sp) = both("final scan", || world.dense.get(r, cc), || world.sparse.get(r, cc))?;
            if d != want || sp != want {
                return Err(format!("final scan: cell ({r},{cc}): dense {d:?}, sparse {sp:?}, model {want:?} (phase {:?}, {} dense columns)", world.phase, world.num_dense));
            }
        }
    }
    st.evals(k.ops);
    st.class_n("case with heavy columns in the initial fill", heavy_cols as u64);
    st.class_n("op: freeze", k.freezes as u64);
    st.class_n("op: freeze crossing a 64-column boundary of the dense tail", k.freeze_cross_word as u64);
    st.class_n("op: resize", k.resizes as u64);
    st.class_n("op: swap_rows", k.row_swaps as u64);
    st.class_n("op: swap_columns", k.col_swaps as u64);
    st.class_n("op: pivot elimination (indexed add, start_col 0)", k.pivot_elims as u64);
    st.class_n("op: partial add (start_col = first dense column)", k.partial_adds as u64);
    st.class_n("op: full add", k.full_adds as u64);
    st.class_n("query: column ones", k.col_queries as u64);
    st.class_n("query: packed sub-row", k.sub_rows as u64);
    st.class_n("query: dense-only packed sub-row / non-zero columns from an arbitrary start column", k.dense_only_queries as u64);
    st.class_n("queries", k.queries);
    st.class_n("queries skipped as undefined", k.skipped_undefined);
    st.class(match world.phase {
        Phase::Construction => "ended in construction phase",
        Phase::Indexed => "ended in indexed phase",
        Phase::Unindexed => "ended in un-indexed phase",
    });
    if k.freeze_cross_word >= 1 && k.resizes >= 1 && k.col_swap_after_row_swap >= 1 {
        let sig: Vec<u64> = c.ops.iter().map(|o| (o.kind as u64) << 48 | (o.a as u64) << 32 | (o.b as u64) << 16 | o.c as u64).collect();
        st.nt(fnv_u64s(&[c.width as u64, c.extra_height as u64, c.dense_hint as u64, c.fill_seed, fnv_u64s(&sig)]));
    }
    st.sample(|| json!({"width": c.width, "height": c.width + c.extra_height, "dense_hint": c.dense_hint, "ops": c.ops.len(), "freezes": k.freezes, "resizes": k.resizes, "final_phase": format!("{:?}", world.phase)}));
    Ok(())
}

fn xor(a: Tri, b: Tri) -> Tri {
    match (a, b) {
        (Tri::Undef, _) | (_, Tri::Undef) => Tri::Undef,
        (x, y) => {
            if x == y {
                Tri::Zero
            } else {
                Tri::One
            }
        }
    }
}

/// add_assign_rows(dest, src, start_col > 0): the dense part is added; cells of dest left of
/// start_col become undefined where src is one or undefined (the interface's own contract, in
/// the form both callers and both implementations rely on).
fn partial_add(world: &mut World, dest: usize, src: usize, start: usize) {
    for cc in 0..start {
        if world.model[src][cc] != Tri::Zero {
            world.model[dest][cc] = Tri::Undef;
        }
    }
    for cc in start..world.w {
        world.model[dest][cc] = xor(world.model[dest][cc], world.model[src][cc]);
    }
}

fn to_json(c: &Case) -> Value {
    json!({"width": c.width, "extra_height": c.extra_height, "dense_hint": c.dense_hint, "density": c.density, "fill_seed": c.fill_seed,
           "ops": c.ops.iter().map(|o| json!([o.kind, o.a, o.b, o.c, o.d])).collect::<Vec<_>>()})
}

fn from_json(v: &Value) -> Case {
    Case {
        width: v["width"].as_u64().unwrap() as usize,
        extra_height: v["extra_height"].as_u64().unwrap() as usize,
        dense_hint: v["dense_hint"].as_u64().unwrap() as usize,
        density: v["density"].as_u64().unwrap() as u8,
        fill_seed: v["fill_seed"].as_u64().unwrap(),
        ops: v["ops"]
            .as_array()
            .unwrap()
            .iter()
            .map(|o| RawOp { kind: o[0].as_u64().unwrap() as u8, a: o[1].as_u64().unwrap() as u16, b: o[2].as_u64().unwrap() as u16, c: o[3].as_u64().unwrap() as u16, d: o[4].as_u64().unwrap() as u16 })
            .collect(),
    }
}

fn signature(_: &Case, msg: &str) -> String {
    let which = if msg.contains("DenseBinaryMatrix panicked") {
        "dense-panic"
    } else if msg.contains("SparseBinaryMatrix panicked") {
        "sparse-panic"
    } else {
        "answer"
    };
    let opname = msg.split(": ").nth(1).unwrap_or("").split('(').next().unwrap_or("").trim().to_string();
    let opname = if msg.starts_with("final scan") { "final-scan".to_string() } else { opname };
    let mut sig = format!("matrix:{which}:{opname}");
    if which == "dense-panic" && opname == "get_row_iter" {
        // distinguish the known slice-end case: last row, end column = width, width % 64 == 0
        sig.push_str(if msg.contains("range end index") { ":slice-end" } else { "" });
    }
    sig
}

pub fn run(ctx: &Ctx, rep: &mut Report) {
    rep.rule = "model-based: generated shape (width 2..=260 weighted to 63..66, 127..140, 191..200; height = width + 0..=70; trailing dense hint 1..=width-1 weighted to just below the 64/128/192-column boundaries; initial fill through set with generated density, in half the cases plus 1..3 heavy columns set in 7/8 of the rows so that column lists far longer than the mean exist) and 1..90 raw operation descriptors interpreted by the model into admissible operations of a three-phase protocol mirroring every precondition asserted in sparse_matrix.rs: construction (set, swap rows/columns, additions, queries), indexed (enable; swap rows; swap columns within the sparse part with a valid start-row hint; freeze the last sparse column; pivot elimination add(dest,src,0) when src has a single one in the sparse part and dest has it set; add(dest,src,first dense column); set in the dense part; count/iterate rows over the sparse part; ones of still-valid columns; packed sub-row and non-zero columns at the first dense column - and, for the dense matrix alone, which states no precondition on it, from any start column in every phase, also after a narrowing resize; get), un-indexed (disable; resize keeping width or dropping at least the dense tail, height >= width; unrestricted additions; set; queries). Oracle: a Vec<Vec<Tri>> with an undefined state (cells of dest left of start_col where src is non-zero after a partial addition); every query of BOTH implementations is compared with the model on defined cells, packed rows are unpacked by the harness, and all defined cells are scanned at the end. Non-trivial = sequence with a freeze that crosses a 64-column boundary of the dense tail, a resize, and a column swap after a row swap; distinct by (shape, op sequence).".into();
    rep.assumptions.push("trailing dense hint >= 1 as in every caller (the solver passes P >= 10)".into());
    let n = ctx.tier.pick(200_000u64, 2_000_000);
    rep.absorb("model", run_sharded("C16", "model", ctx.seed, n, 32, strategy, check, to_json, signature));
}

pub fn replay(_sub: &str, case: &Value) -> Result<(), String> {
    check(&from_json(case), &mut Stats::new())
}

/// Fuzz entry: bytes -> shape + raw operation descriptors -> model-based check.
pub fn fuzz_one(data: &[u8]) -> Result<(), String> {
    use arbitrary::Unstructured;
    let mut u = Unstructured::new(data);
    let width = match u.int_in_range(0..=3u8).unwrap_or(0) {
        0 => u.int_in_range(2..=200usize).unwrap_or(2),
        1 => u.int_in_range(63..=66usize).unwrap_or(63),
        2 => u.int_in_range(127..=130usize).unwrap_or(127),
        _ => u.int_in_range(2..=40usize).unwrap_or(2),
    };
    let extra_height = u.int_in_range(0..=70usize).unwrap_or(0);
    let pmax = (width - 1).max(1);
    let dense_hint = u.int_in_range(1..=pmax).unwrap_or(1);
    let density = u.int_in_range(0..=7u8).unwrap_or(0);
    let fill_seed: u64 = u.arbitrary().unwrap_or(0);
    let mut ops = vec![];
    while !u.is_empty() && ops.len() < 200 {
        ops.push(RawOp { kind: u.arbitrary().unwrap_or(0), a: u.arbitrary().unwrap_or(0), b: u.arbitrary().unwrap_or(0), c: u.arbitrary().unwrap_or(0), d: u.arbitrary().unwrap_or(0) });
    }
    let c = Case { width, extra_height, dense_hint, density, fill_seed, ops };
    check(&c, &mut Stats::new()).map_err(|m| format!("{m} | case {}", to_json(&c)))
}

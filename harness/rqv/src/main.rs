//! rqv — property checks for cberner/raptorq (property-based testing / enumeration engine E1).
//!
//! usage: rqv <Cxx> [--tier quick|thorough] [--seed N] [--replay FILE]
//! exit:  0 property held on everything explored, 1 VIOLATION printed, 2 inconclusive.


use rqv::*;
use rqv::util;

fn usage() -> ! {
    eprintln!("usage: rqv <Cxx> [--tier quick|thorough] [--seed N] [--replay FILE]");
    std::process::exit(2);
}

fn main() {
    let args: Vec<String> = std::env::args().collect();
    if args.len() < 2 {
        usage();
    }
    let prop = args[1].to_uppercase();
    // auxiliary modes for the fuzzing engine
    if prop == "GENCORPUS" {
        // rqv GENCORPUS <target> <dir> <n> <seed>: random byte files; every byte string decodes
        // to a valid structured case by construction
        let (dir, n, seed) = (&args[3], args[4].parse::<u64>().unwrap(), args[5].parse::<u64>().unwrap());
        std::fs::create_dir_all(dir).unwrap();
        let mut rng = util::SplitMix::new(util::mix(seed, util::fnv_str(&args[2])));
        for i in 0..n {
            let len = match rng.below(4) {
                0 => 8 + rng.below(40),
                1 => 40 + rng.below(200),
                _ => 100 + rng.below(900),
            } as usize;
            std::fs::write(format!("{dir}/gen-{i:06}"), rng.bytes(len)).unwrap();
        }
        println!("wrote {n} inputs to {dir}");
        return;
    }
    if prop == "ADVDIGEST" {
        util::install_quiet_panic_hook();
        rqv::c07::adv_digest(args[2].parse::<u64>().unwrap(), args[3].parse::<u64>().unwrap());
        return;
    }
    if prop == "FUZZ" {
        // rqv FUZZ <target> <file|dir>...: run the fuzz target's oracle on saved inputs
        util::install_quiet_panic_hook();
        let target = args[2].clone();
        let mut files: Vec<String> = vec![];
        for a in &args[3..] {
            if std::path::Path::new(a).is_dir() {
                for e in std::fs::read_dir(a).unwrap().flatten() {
                    files.push(e.path().to_string_lossy().to_string());
                }
            } else {
                files.push(a.clone());
            }
        }
        files.sort();
        let mut bad = 0;
        for f in &files {
            let data = std::fs::read(f).unwrap_or_default();
            let r = match util::catch(|| rqv::fuzz_target(&target, &data)) {
                Ok(r) => r,
                Err(p) => Err(format!("panic: {p}")),
            };
            if let Err(m) = r {
                bad += 1;
                println!("VIOLATION property={} replay={}", rqv::fuzz_property(&target, &m), f);
                println!("  {m}");
            }
        }
        println!("FUZZ target={target} inputs={} failing={bad}", files.len());
        std::process::exit(if bad > 0 { 1 } else { 0 });
    }
    let mut tier = match std::env::var("VERIF_TIER").ok().as_deref() {
        Some("thorough") => Tier::Thorough,
        _ => Tier::Quick,
    };
    let mut seed: u64 = std::env::var("VERIF_SEED")
        .ok()
        .and_then(|s| s.trim().parse::<i128>().ok())
        .map(|v| v as u64)
        .unwrap_or(1);
    let mut replay: Option<String> = None;
    let mut partial_out: Option<String> = None;
    let mut merge_files: Vec<String> = vec![];
    let mut only: Option<String> = None;
    let mut i = 2;
    while i < args.len() {
        match args[i].as_str() {
            "--tier" => {
                i += 1;
                tier = match args.get(i).map(|s| s.as_str()) {
                    Some("quick") => Tier::Quick,
                    Some("thorough") => Tier::Thorough,
                    _ => usage(),
                };
            }
            "--seed" => {
                i += 1;
                seed = args
                    .get(i)
                    .and_then(|s| s.parse::<i128>().ok())
                    .map(|v| v as u64)
                    .unwrap_or_else(|| usage());
            }
            "--replay" => {
                i += 1;
                replay = Some(args.get(i).cloned().unwrap_or_else(|| usage()));
            }
            "--partial-out" => {
                i += 1;
                partial_out = Some(args.get(i).cloned().unwrap_or_else(|| usage()));
            }
            "--merge" => {
                i += 1;
                merge_files.push(args.get(i).cloned().unwrap_or_else(|| usage()));
            }
            "--only" => {
                i += 1;
                only = Some(args.get(i).cloned().unwrap_or_else(|| usage()));
            }
            _ => usage(),
        }
        i += 1;
    }
    util::install_quiet_panic_hook();
    rayon::ThreadPoolBuilder::new()
        .num_threads(
            std::env::var("VERIF_THREADS")
                .ok()
                .and_then(|s| s.parse().ok())
                .unwrap_or(16),
        )
        .stack_size(64 << 20)
        .build_global()
        .ok();

    let ctx = Ctx { tier, seed, only };

    if let Some(path) = replay {
        let text = match std::fs::read_to_string(&path) {
            Ok(t) => t,
            Err(e) => {
                eprintln!("cannot read replay {path}: {e}");
                std::process::exit(2);
            }
        };
        let v: serde_json::Value = match serde_json::from_str(&text) {
            Ok(v) => v,
            Err(e) => {
                eprintln!("cannot parse replay {path}: {e}");
                std::process::exit(2);
            }
        };
        let sub = v["sub"].as_str().unwrap_or("").to_string();
        let case = v["case"].clone();
        if case.is_null() && !matches!(sub.as_str(), "tables" | "consts") {
            eprintln!("cannot replay {path}: the file records no case");
            std::process::exit(2);
        }
        let res = util::catch(|| replay_one(&prop, &sub, &case));
        let res = match res {
            Ok(r) => r,
            Err(p) => Err(format!("panic: {p}")),
        };
        match res {
            Ok(()) => {
                println!("REPLAY property={prop} sub={sub}: case passes on this tree");
                std::process::exit(0);
            }
            Err(msg) => {
                println!("VIOLATION property={prop} replay={path}");
                println!("  {msg}");
                std::process::exit(1);
            }
        }
    }

    let mut rep = Report::new(leak(&prop), tier, seed);
    rep.partial_out = partial_out;
    rep.merge_files = merge_files;
    match prop.as_str() {
        "C01" => c01::run(&ctx, &mut rep),
        "C02" => c02::run(&ctx, &mut rep),
        "C03" => c03::run(&ctx, &mut rep),
        "C04" => c04::run(&ctx, &mut rep),
        "C05" => c05::run(&ctx, &mut rep),
        "C06" => c06::run(&ctx, &mut rep),
        "C07" => c07::run(&ctx, &mut rep),
        "C08" => c08::run(&ctx, &mut rep),
        "C09" => c09::run(&ctx, &mut rep),
        "C10" => c10::run(&ctx, &mut rep),
        "C11" => c11::run(&ctx, &mut rep),
        "C12" => c12::run(&ctx, &mut rep),
        "C13" => c13::run(&ctx, &mut rep),
        "C14" => c14::run(&ctx, &mut rep),
        "C15" => c15::run(&ctx, &mut rep),
        "C16" => c16::run(&ctx, &mut rep),
        "C17" => c17::run(&ctx, &mut rep),
        "C18" => c18::run(&ctx, &mut rep),
        "C19" => c19::run(&ctx, &mut rep),
        _ => {
            eprintln!("unknown property {prop}");
            std::process::exit(2);
        }
    }
    let code = util::finish(rep);
    std::process::exit(code);
}

fn leak(s: &str) -> &'static str {
    Box::leak(s.to_string().into_boxed_str())
}

fn replay_one(prop: &str, sub: &str, case: &serde_json::Value) -> Result<(), String> {
    match prop {
        "C01" => c01::replay(sub, case),
        "C02" => c02::replay(sub, case),
        "C03" => c03::replay(sub, case),
        "C04" => c04::replay(sub, case),
        "C05" => c05::replay(sub, case),
        "C06" => c06::replay(sub, case),
        "C07" => c07::replay(sub, case),
        "C08" => c08::replay(sub, case),
        "C09" => c09::replay(sub, case),
        "C10" => c10::replay(sub, case),
        "C11" => c11::replay(sub, case),
        "C12" => c12::replay(sub, case),
        "C13" => c13::replay(sub, case),
        "C14" => c14::replay(sub, case),
        "C15" => c15::replay(sub, case),
        "C16" => c16::replay(sub, case),
        "C17" => c17::replay(sub, case),
        "C18" => c18::replay(sub, case),
        "C19" => c19::replay(sub, case),
        _ => Err(format!("unknown property {prop}")),
    }
}

//! C09 — the code is GF(256)-linear and acts independently on every byte column.

use crate::codec::{build_block, build_from, block_cfg, data_class_from, make_data, repair_esi};
use crate::reference::gf_mul;
use crate::util::{fnv_u64s, run_sharded, Report, SplitMix, Stats};
use crate::Ctx;
use proptest::prelude::*;
use raptorq::{EncodingPacket, SourceBlockDecoder};
use serde_json::{json, Value};

#[derive(Debug, Clone)]
pub struct Case {
    k: u32,
    t: usize,
    class_a: u64,
    class_b: u64,
    scalar: u8,
    build: u64,
    seed: u64,
}

fn t_strategy() -> impl Strategy<Value = usize> {
    prop_oneof![
        6 => 1usize..=136,
        1 => 191usize..=193,
        1 => 255usize..=257,
        1 => Just(1280usize),
        1 => 64usize..=72,
        1 => prop_oneof![Just(4097usize), Just(32768usize), Just(65535usize), Just(65534usize), 8000usize..=9000, 16380usize..=16390],
    ]
}

fn strategy(kmax: u32) -> impl Strategy<Value = Case> {
    (
        prop_oneof![4 => 1u32..=40, 2 => 1u32..=kmax, 1 => 245u32..=260],
        t_strategy(),
        0u64..5,
        0u64..5,
        prop_oneof![3 => any::<u8>(), 1 => Just(0u8), 1 => Just(1u8), 1 => Just(2u8), 1 => Just(0x1Du8), 1 => Just(0x80u8), 1 => Just(0xFFu8)],
        0u64..6,
        any::<u64>(),
    )
        .prop_map(move |(k, t, class_a, class_b, scalar, build, seed)| {
            // bound the work: large K only with moderate T
            let t = if k > 400 { t.min(136) } else { t };
            // wide symbols only on small blocks (bounded work per case)
            let k = if t > 2000 { 1 + k % 12 } else { k };
            Case { k: k.min(kmax.max(260)), t, class_a, class_b, scalar, build, seed }
        })
}

fn xor(a: &[u8], b: &[u8]) -> Vec<u8> {
    a.iter().zip(b).map(|(x, y)| x ^ y).collect()
}

fn scale(c: u8, a: &[u8]) -> Vec<u8> {
    a.iter().map(|&x| gf_mul(c, x)).collect()
}

fn packets(enc: &raptorq::SourceBlockEncoder, k: u32, esis: &[u32]) -> Vec<EncodingPacket> {
    let mut v = enc.source_packets();
    for &e in esis {
        v.extend(enc.repair_packets(e - k, 1));
    }
    v
}

fn check(c: &Case, st: &mut Stats) -> Result<(), String> {
    let (k, t) = (c.k, c.t);
    let len = k as usize * t;
    let a = make_data(data_class_from(c.class_a), c.seed, len);
    let b = make_data(data_class_from(c.class_b), c.seed ^ 0xB, len);
    let cfg = block_cfg(k as usize, t);
    let how = build_from(c.build);
    let mut rng = SplitMix::new(c.seed ^ 0xE51);
    let mut esis: Vec<u32> = (k..k + 6).collect();
    for _ in 0..8 {
        esis.push(repair_esi(rng.next_u64(), rng.next_u64(), k));
    }
    esis.push((1 << 24) - 1);
    esis.sort_unstable();
    esis.dedup();

    let both_paths = t > 64 && t % 64 != 0;
    st.class_if(both_paths, "T>64 and T mod 64 != 0 (vector body and tail)");
    st.class_if(t % 8 != 0, "T mod 8 != 0");
    st.class_if(t > 2000, "T > 2000");
    st.class_if(c.scalar > 1, "scalar not in {0,1}");
    st.class(&format!("build:{how:?}"));
    if both_paths && c.scalar > 1 {
        st.nt(fnv_u64s(&[k as u64, t as u64, c.build]));
    }
    st.sample(|| json!({"K": k, "T": t, "scalar": c.scalar, "build": format!("{how:?}"), "data": [format!("{:?}", data_class_from(c.class_a)), format!("{:?}", data_class_from(c.class_b))], "esis": &esis[..esis.len().min(6)]}));

    let ea = build_block(how, 0, &cfg, &a);
    let eb = build_block(how, 0, &cfg, &b);
    let eab = build_block(how, 0, &cfg, &xor(&a, &b));
    let eca = build_block(how, 0, &cfg, &scale(c.scalar, &a));
    let (pa, pb, pab, pca) = (packets(&ea, k, &esis), packets(&eb, k, &esis), packets(&eab, k, &esis), packets(&eca, k, &esis));
    for i in 0..pa.len() {
        st.eval();
        let id = pa[i].payload_id();
        if pab[i].payload_id() != id || pca[i].payload_id() != id {
            return Err("payload IDs depend on the data".into());
        }
        if pab[i].data() != &xor(pa[i].data(), pb[i].data())[..] {
            return Err(format!(
                "additivity: K={k} T={t} {how:?} ESI {}: pkt(A xor B) != pkt(A) xor pkt(B)",
                id.encoding_symbol_id()
            ));
        }
        if pca[i].data() != &scale(c.scalar, pa[i].data())[..] {
            return Err(format!(
                "homogeneity: K={k} T={t} {how:?} ESI {} scalar {}: pkt(c*A) != c*pkt(A)",
                id.encoding_symbol_id(),
                c.scalar
            ));
        }
    }
    // byte-column independence: byte j of every packet at symbol size T equals the one-byte
    // packet obtained by encoding byte column j alone (a few columns per case, always the last)
    let cfg1 = block_cfg(k as usize, 1);
    let mut cols: Vec<usize> = vec![0, t - 1, t / 2];
    for _ in 0..2 {
        cols.push(rng.below(t as u64) as usize);
    }
    for off in [63usize, 64, 65, 31, 32, 8, 7] {
        if t > off + 1 {
            cols.push(t - 1 - off);
        }
    }
    cols.sort_unstable();
    cols.dedup();
    let cols: Vec<usize> = if k > 400 { cols.into_iter().take(4).collect() } else { cols };
    let mut col_packets: Vec<(usize, Vec<EncodingPacket>)> = vec![];
    for &j in &cols {
        let col: Vec<u8> = (0..k as usize).map(|s| a[s * t + j]).collect();
        let e1 = build_block(how, 0, &cfg1, &col);
        let p1 = packets(&e1, k, &esis);
        for i in 0..pa.len() {
            st.eval();
            if p1[i].data().len() != 1 || p1[i].data()[0] != pa[i].data()[j] {
                return Err(format!(
                    "column independence: K={k} T={t} {how:?} ESI {}: byte {j} of the packet differs from the packet of byte column {j} alone",
                    pa[i].payload_id().encoding_symbol_id()
                ));
            }
        }
        col_packets.push((j, p1));
    }
    // decoding side: same ESI set => same outcome for T = 1 and T = T, bytes column-wise equal
    let mut order: Vec<usize> = (0..pa.len()).collect();
    rng.shuffle(&mut order);
    let drop = 1 + rng.below(3.min(k as u64)) as usize;
    // remove `drop` source packets, keep everything else (K + 15 - drop symbols)
    let erased: Vec<usize> = (0..k as usize).filter(|i| order.iter().position(|o| o == i).unwrap() < drop).collect();
    let keep: Vec<usize> = (0..pa.len()).filter(|i| !erased.contains(i)).collect();
    // use only K + overhead of them so that some sets are undecodable
    let overhead = rng.below(3) as usize;
    let take = (k as usize + overhead).min(keep.len());
    let chosen: Vec<usize> = {
        let mut kk = keep.clone();
        rng.shuffle(&mut kk);
        kk.truncate(take);
        kk
    };
    let mut dt = SourceBlockDecoder::new(0, &cfg, len as u64);
    let rt = dt.decode(chosen.iter().map(|&i| pa[i].clone()));
    for (j, p1) in col_packets.iter().take(2) {
        let mut d1 = SourceBlockDecoder::new(0, &cfg1, k as u64);
        let r1 = d1.decode(chosen.iter().map(|&i| p1[i].clone()));
        if r1.is_some() != rt.is_some() {
            return Err(format!(
                "decoding outcome depends on the symbol size: K={k}, same ESI set, T=1 gives {}, T={t} gives {}",
                if r1.is_some() { "Some" } else { "None" },
                if rt.is_some() { "Some" } else { "None" }
            ));
        }
        if let (Some(o1), Some(ot)) = (&r1, &rt) {
            let col: Vec<u8> = (0..k as usize).map(|s| ot[s * t + j]).collect();
            if o1 != &col {
                return Err(format!("decoded byte column {j} at T={t} differs from decoding that column alone"));
            }
        }
    }
    st.class(if rt.is_some() { "decode Some" } else { "decode None" });
    Ok(())
}

fn to_json(c: &Case) -> Value {
    json!({"k": c.k, "t": c.t, "class_a": c.class_a, "class_b": c.class_b, "scalar": c.scalar, "build": c.build, "seed": c.seed})
}

fn from_json(v: &Value) -> Case {
    let g = |k: &str| v[k].as_u64().unwrap();
    Case { k: g("k") as u32, t: g("t") as usize, class_a: g("class_a"), class_b: g("class_b"), scalar: g("scalar") as u8, build: g("build"), seed: g("seed") }
}

fn signature(_: &Case, msg: &str) -> String {
    format!("linear:{}", msg.split(':').next().unwrap_or("").split(' ').next().unwrap_or(""))
}

pub fn run(ctx: &Ctx, rep: &mut Report) {
    rep.rule = "generated (K in 1..=40 weighted, up to 2000 / around the dense-sparse switch 245..260; T over 1..=136, 191..193, 255..257, 1280 (and, on blocks of at most 12 symbols, 4097, 8000..9000, 16380..16390, 32768, 65534, 65535) so that every residue modulo 8/16/32/64 occurs; data pairs A,B from {random, zero, 0xFF, one-hot, position-coded}; scalar c over all 256 weighted to 0,1,2,0x1D,0x80,0xFF; construction in {new, with_encoding_plan, unplanned dense/sparse, plan from dense/sparse}); for every source packet and ~15 repair packets (near, uniform, far ESIs, 2^24-1): pkt(A^B) = pkt(A)^pkt(B), pkt(c*A) = c*pkt(A) with c* from the polynomial multiplier, byte j of pkt_T(A) = pkt_1(column j of A); decoding the same ESI set at T and at 1 gives the same Some/None and column-wise equal bytes. Non-trivial = T > 64 with T mod 64 != 0 (vector body and scalar tail both run) and c not in {0,1}; distinct by (K,T,construction).".into();
    let kmax = ctx.tier.pick(600u32, 2000);
    let n = ctx.tier.pick(20_000u64, 200_000);
    rep.absorb("linearity", run_sharded("C09", "linearity", ctx.seed, n, 32, move || strategy(kmax), check, to_json, signature));
}

pub fn replay(_sub: &str, case: &Value) -> Result<(), String> {
    check(&from_json(case), &mut Stats::new())
}

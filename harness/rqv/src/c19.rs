//! C19 — the configuration constructor enforces the RFC's parameter limits.

use crate::util::{catch, fnv_u64s, run_sharded, Report, Stats};
use crate::Ctx;
use proptest::prelude::*;
use raptorq::ObjectTransmissionInformation;
use serde_json::{json, Value};

const F_MAX: u64 = 942574504275;
const K_MAX: u128 = 56403;

#[derive(Debug, Clone, PartialEq)]
pub struct Case {
    f: u64,
    t: u16,
    z: u8,
    n: u16,
    al: u8,
}

/// Reference predicate, in u128 arithmetic, of the limits `new` documents.
fn accept(c: &Case) -> bool {
    let (f, t, z, al) = (c.f as u128, c.t as u128, c.z as u128, c.al as u128);
    let kt = (f + t - 1) / t;
    let per_block = (kt + z - 1) / z;
    c.f <= F_MAX && t % al == 0 && per_block <= K_MAX
}

fn near_limit(c: &Case) -> bool {
    let (f, t, z) = (c.f as i128, c.t as i128, c.z as i128);
    let lim = 56403 * z * t;
    (f - F_MAX as i128).abs() <= 2
        || (f - lim).abs() <= 2 * t
        || (c.f as u128 + c.t as u128 - 1) / c.t as u128 >= 1 << 32
}

fn strategy() -> impl Strategy<Value = Case> {
    let t = prop_oneof![3 => 1u16..=300, 2 => 1u16..=65535, 1 => Just(1u16), 1 => Just(65535u16), 1 => Just(256u16), 1 => Just(255u16)];
    let z = prop_oneof![3 => 1u8..=255, 1 => Just(1u8), 1 => Just(255u8), 1 => Just(2u8)];
    let al = prop_oneof![2 => Just(1u8), 1 => Just(2u8), 1 => Just(4u8), 1 => Just(8u8), 2 => 1u8..=255];
    (t, z, al, any::<u16>(), 0u8..12, any::<u64>(), -6i64..=6).prop_map(
        |(t, z, al, n, mode, r, d)| {
            // in 3 of 4 cases make Al divide T so that the symbol-count limits decide
            let al = if r % 4 != 0 && t % al as u16 != 0 { 1 } else { al };
            let lim = 56403u64 * z as u64 * t as u64;
            let shift = |base: u64, d: i64| -> u64 {
                if d < 0 {
                    base.saturating_sub((-d) as u64)
                } else {
                    base.saturating_add(d as u64)
                }
            };
            let f = match mode {
                // adjacent to the per-block symbol limit (in units of bytes and of symbols)
                0 => shift(lim, d),
                1 => shift(lim, d * t as i64),
                // adjacent to the transfer-length limit
                2 => shift(F_MAX, d),
                // ceil(F/T) adjacent to a multiple of 2^32 (narrowing hazards)
                3 | 4 => {
                    let m = 1 + r % 256;
                    shift((m << 32).saturating_mul(t as u64), d * (t as i64).max(1))
                }
                5 => shift((1 + r % 200) << 32, d),
                // log-uniform over 0..2^40
                6 | 7 => {
                    let bits = r % 41;
                    if bits == 0 {
                        0
                    } else {
                        (1u64 << (bits - 1)) | ((r >> 8) & ((1u64 << (bits - 1)) - 1))
                    }
                }
                8 => r % (lim + 1),
                9 => lim + 1 + r % (lim + 1),
                10 => (r >> 24) % (1u64 << 40),
                _ => shift(lim.min(F_MAX), d),
            };
            Case { f, t, z, n, al }
        },
    )
}

fn check(c: &Case, st: &mut Stats) -> Result<(), String> {
    let want = accept(c);
    let got = catch(|| ObjectTransmissionInformation::new(c.f, c.t, c.z, c.n, c.al));
    st.class(if want { "in limits" } else { "outside limits" });
    st.class_if(c.t % c.al as u16 != 0, "T not multiple of Al");
    st.class_if(c.f > F_MAX, "F above max transfer length");
    let wide = (c.f as u128 + c.t as u128 - 1) / c.t as u128 >= 1 << 32;
    st.class_if(wide, "ceil(F/T)>=2^32");
    if near_limit(c) {
        st.class("near a limit");
        st.nt(fnv_u64s(&[c.f, c.t as u64, c.z as u64, c.al as u64]));
    }
    st.sample(|| json!({"F": c.f, "T": c.t, "Z": c.z, "N": c.n, "Al": c.al, "expected_accept": want}));
    match (want, got) {
        (true, Ok(o)) => {
            if o.transfer_length() != c.f
                || o.symbol_size() != c.t
                || o.source_blocks() != c.z
                || o.sub_blocks() != c.n
                || o.symbol_alignment() != c.al
            {
                return Err(format!("accepted configuration does not report the values it was given: {c:?} -> {o:?}"));
            }
            Ok(())
        }
        (false, Err(_)) => Ok(()),
        (true, Err(p)) => Err(format!("refused a parameter set inside the documented limits: {c:?} ({p})")),
        (false, Ok(_)) => Err(format!(
            "accepted a parameter set outside the documented limits: {c:?} (ceil(ceil(F/T)/Z) = {})",
            ((c.f as u128 + c.t as u128 - 1) / c.t as u128 + c.z as u128 - 1) / c.z as u128
        )),
    }
}

fn to_json(c: &Case) -> Value {
    json!({"f": c.f, "t": c.t, "z": c.z, "n": c.n, "al": c.al})
}

fn from_json(v: &Value) -> Case {
    Case {
        f: v["f"].as_u64().unwrap(),
        t: v["t"].as_u64().unwrap() as u16,
        z: v["z"].as_u64().unwrap() as u8,
        n: v["n"].as_u64().unwrap() as u16,
        al: v["al"].as_u64().unwrap() as u8,
    }
}

fn signature(c: &Case, msg: &str) -> String {
    let kind = if msg.starts_with("accepted a parameter") {
        "accepted-outside"
    } else if msg.starts_with("refused") {
        "refused-inside"
    } else {
        "other"
    };
    let wide = (c.f as u128 + c.t as u128 - 1) / c.t as u128 >= 1 << 32;
    format!("new:{kind}:{}", if wide { "ceil(F/T)>=2^32" } else { "narrow" })
}

/// Regression seeds: inputs that once failed (kept in the deterministic part of the generator).
fn regression_cases() -> Vec<Case> {
    vec![
        Case { f: (1 << 32) + 5, t: 1, z: 1, n: 1, al: 1 },
        Case { f: 1 << 32, t: 1, z: 1, n: 1, al: 1 },
        Case { f: (1 << 33) + 56403, t: 2, z: 1, n: 1, al: 1 },
        Case { f: F_MAX, t: 65535, z: 255, n: 1, al: 1 },
        Case { f: F_MAX + 1, t: 65535, z: 255, n: 1, al: 1 },
        Case { f: 56403, t: 1, z: 1, n: 0, al: 1 },
        Case { f: 56404, t: 1, z: 1, n: 0, al: 1 },
        Case { f: 0, t: 1, z: 1, n: 1, al: 1 },
        Case { f: 10, t: 10, z: 1, n: 1, al: 3 },
    ]
}

pub fn run(ctx: &Ctx, rep: &mut Report) {
    rep.rule = "generated (F, T, Z, N, Al) with T in 1..=65535, Z, Al in 1..=255, F built adjacent to each limit (56403*Z*T +- d, 942574504275 +- d, ceil(F/T) around multiples of 2^32) or log-uniform below 2^40; oracle = the documented limits evaluated in u128 (accept <=> F <= 942574504275 and Al | T and ceil(ceil(F/T)/Z) <= 56403); new() must return (and echo the values) iff accept, else panic. Non-trivial = within +-2 symbols of a limit or ceil(F/T) >= 2^32; distinct by (F,T,Z,Al).".into();
    rep.assumptions.push("domain: positive T, Z, Al as the property states (zero values are outside it)".into());
    let mut st = Stats::new();
    let started = std::time::Instant::now();
    let mut failures = vec![];
    for c in regression_cases() {
        st.eval();
        if let Err(m) = check(&c, &mut st) {
            failures.push(crate::util::simple_failure("new", m.clone(), signature(&c, &m), to_json(&c)));
        }
    }
    failures.truncate(1);
    rep.absorb("regression", crate::util::SubOutcome { stats: st, failures, wall_s: started.elapsed().as_secs_f64() });
    let n = ctx.tier.pick(20_000_000u64, 400_000_000);
    rep.absorb(
        "new",
        run_sharded("C19", "new", ctx.seed, n, 64, strategy, check, to_json, signature),
    );
}

pub fn replay(_sub: &str, case: &Value) -> Result<(), String> {
    check(&from_json(case), &mut Stats::new())
}

//! C10 — octet arithmetic is the field GF(256) of RFC 6330 5.7.
//! Exhaustive enumeration against the polynomial definition (no tables shared with the crate).

use crate::reference::{gf_inv, gf_mul, gf_pow};
use crate::util::{catch, simple_failure, Failure, Report, Stats, SubOutcome};
use crate::Ctx;
use raptorq::verif::{Octet, OCTET_MUL, OCTET_MUL_HI_BITS, OCTET_MUL_LOW_BITS};
use rayon::prelude::*;
use serde_json::{json, Value};
use std::time::Instant;

fn check_pair(a: u8, b: u8) -> Result<(), String> {
    let (oa, ob) = (Octet::new(a), Octet::new(b));
    let want = gf_mul(a, b);
    let got = (&oa * &ob).byte();
    if got != want {
        return Err(format!("&a*&b: {a}*{b} = {got}, field product is {want}"));
    }
    let got = (oa.clone() * ob.clone()).byte();
    if got != want {
        return Err(format!("a*b (by value): {a}*{b} = {got}, field product is {want}"));
    }
    if OCTET_MUL[a as usize][b as usize] != want {
        return Err(format!(
            "OCTET_MUL[{a}][{b}] = {}, field product is {want}",
            OCTET_MUL[a as usize][b as usize]
        ));
    }
    // nibble tables incl. the duplicated upper 16 lanes
    for dup in [0usize, 16] {
        let lo = OCTET_MUL_LOW_BITS[a as usize][(b & 15) as usize + dup];
        let hi = OCTET_MUL_HI_BITS[a as usize][(b >> 4) as usize + dup];
        if lo ^ hi != want {
            return Err(format!(
                "LOW[{a}][{}] ^ HI[{a}][{}] = {}, field product is {want}",
                (b & 15) as usize + dup,
                (b >> 4) as usize + dup,
                lo ^ hi
            ));
        }
    }
    // addition / subtraction are xor
    if (&oa + &ob).byte() != a ^ b || (oa.clone() + ob.clone()).byte() != a ^ b {
        return Err(format!("{a}+{b} is not xor"));
    }
    if (oa.clone() - ob.clone()).byte() != a ^ b {
        return Err(format!("{a}-{b} is not xor"));
    }
    let mut acc = oa.clone();
    acc += ob.clone();
    if acc.byte() != a ^ b {
        return Err(format!("{a} += {b} is not xor"));
    }
    let mut acc = oa.clone();
    acc += &ob;
    if acc.byte() != a ^ b {
        return Err(format!("{a} += &{b} is not xor"));
    }
    // division
    if b != 0 {
        let want = gf_mul(a, gf_inv(b));
        let got = (&oa / &ob).byte();
        if got != want {
            return Err(format!("&a/&b: {a}/{b} = {got}, field quotient is {want}"));
        }
        let got = (oa.clone() / ob.clone()).byte();
        if got != want {
            return Err(format!("a/b: {a}/{b} = {got}, field quotient is {want}"));
        }
        // (a/b)*b == a
        if (&(&oa / &ob) * &ob).byte() != a {
            return Err(format!("({a}/{b})*{b} != {a}"));
        }
    }
    Ok(())
}

fn check_triple_row(a: u8) -> Result<(), String> {
    let oa = Octet::new(a);
    for b in 0..=255u8 {
        let ob = Octet::new(b);
        let ab = &oa * &ob;
        for c in 0..=255u8 {
            let oc = Octet::new(c);
            // associativity (a*b)*c == a*(b*c)
            let l = (&ab * &oc).byte();
            let r = (&oa * &(&ob * &oc)).byte();
            if l != r {
                return Err(format!("associativity fails for ({a},{b},{c}): {l} != {r}"));
            }
            // distributivity a*(b+c) == a*b + a*c
            let l = (&oa * &(&ob + &oc)).byte();
            let r = (&ab + &(&oa * &oc)).byte();
            if l != r {
                return Err(format!("distributivity fails for ({a},{b},{c}): {l} != {r}"));
            }
            // fma: x = c; x.fma(a,b) == c + a*b  (checked against the polynomial product)
            let mut x = oc.clone();
            x.fma(&oa, &ob);
            if x.byte() != c ^ gf_mul(a, b) {
                return Err(format!(
                    "fma fails: {c} + {a}*{b} = {}, expected {}",
                    x.byte(),
                    c ^ gf_mul(a, b)
                ));
            }
        }
    }
    Ok(())
}

fn fail(sub: &str, msg: String, case: Value) -> Failure {
    let sig = format!("{sub}:{}", msg.split(':').next().unwrap_or(""));
    simple_failure(sub, msg, sig, case)
}

pub fn run(_ctx: &Ctx, rep: &mut Report) {
    rep.rule = "exhaustive enumeration: all 256^2 operand pairs (mul, div, add, sub, +=, product table, low/high nibble tables incl. duplicated lanes) and all 256^3 triples (associativity, distributivity, fma) against carry-less multiplication modulo 0x11D; alpha(i)=2^i for i in 0..=255; refusal of alpha(256) and of division by zero. Non-trivial = pair/triple with all operands >= 2; distinct = operand tuples.".into();
    rep.exhaustive = true;
    rep.assumptions.push("the reference multiplier (shift-and-reduce modulo x^8+x^4+x^3+x^2+1) is correct; it is cross-checked by its own unit tests (generator order 255, inverses)".into());

    // pairs
    let started = Instant::now();
    let results: Vec<(Stats, Option<Failure>)> = (0..=255u8)
        .into_par_iter()
        .map(|a| {
            let mut st = Stats::new();
            let mut f = None;
            for b in 0..=255u8 {
                st.eval();
                if a >= 2 && b >= 2 {
                    st.nt(((a as u64) << 8) | b as u64);
                }
                let r = match catch(|| check_pair(a, b)) {
                    Ok(r) => r,
                    Err(p) => Err(format!("panic: {p}")),
                };
                if let Err(m) = r {
                    f = Some(fail("pairs", m, json!({"a": a, "b": b})));
                    break;
                }
            }
            if a == 7 {
                st.sample(|| json!({"a": 7, "b": 200, "product": gf_mul(7, 200), "quotient": gf_mul(7, gf_inv(200))}));
            }
            (st, f)
        })
        .collect();
    let mut st = Stats::new();
    let mut fails = vec![];
    for (s, f) in results {
        st.merge(s);
        if let Some(f) = f {
            if fails.is_empty() {
                fails.push(f);
            }
        }
    }
    rep.absorb("pairs", SubOutcome { stats: st, failures: fails, wall_s: started.elapsed().as_secs_f64() });

    // triples
    let started = Instant::now();
    let results: Vec<(Stats, Option<Failure>)> = (0..=255u8)
        .into_par_iter()
        .map(|a| {
            let mut st = Stats::new();
            st.evals(65536);
            if a >= 2 {
                // 254*254 non-trivial triples with this a, each visited exactly once below
                st.nt_enumerated(254 * 254);
            }
            let r = match catch(|| check_triple_row(a)) {
                Ok(r) => r,
                Err(p) => Err(format!("panic: {p}")),
            };
            if a == 3 {
                st.sample(|| json!({"a": 3, "b": 5, "c": 9, "a*(b+c)": gf_mul(3, 5 ^ 9)}));
            }
            (st, r.err().map(|m| fail("triples", m, json!({"a": a}))))
        })
        .collect();
    let mut st = Stats::new();
    let mut fails = vec![];
    for (s, f) in results {
        st.merge(s);
        if let Some(f) = f {
            if fails.is_empty() {
                fails.push(f);
            }
        }
    }
    rep.absorb("triples", SubOutcome { stats: st, failures: fails, wall_s: started.elapsed().as_secs_f64() });

    // alpha, inverses, refusals
    let started = Instant::now();
    let mut st = Stats::new();
    let mut fails = vec![];
    for i in 0..=255usize {
        st.eval();
        if i >= 8 {
            st.nt(i as u64);
        }
        let r = catch(|| Octet::alpha(i).byte());
        let want = gf_pow(2, i as u32);
        match r {
            Ok(got) if got == want => {}
            Ok(got) => fails.push(fail("alpha", format!("alpha({i}) = {got}, 2^{i} = {want}"), json!({"i": i}))),
            Err(p) => fails.push(fail("alpha", format!("panic: alpha({i}): {p}"), json!({"i": i}))),
        }
    }
    st.sample(|| json!({"alpha(8)": gf_pow(2, 8), "alpha(255)": gf_pow(2, 255)}));
    st.eval();
    if catch(|| Octet::alpha(256)).is_ok() {
        fails.push(fail("alpha", "alpha(256) was accepted; the accessor documents i < 256".into(), json!({"i": 256})));
    }
    for a in [0u8, 1, 2, 255] {
        st.eval();
        if catch(|| (&Octet::new(a) / &Octet::zero()).byte()).is_ok() {
            fails.push(fail("div0", format!("refusal: {a}/0 did not panic"), json!({"a": a})));
        }
    }
    for a in 1..=255u8 {
        st.eval();
        st.nt(1000 + a as u64);
        let inv = (Octet::one() / Octet::new(a)).byte();
        if gf_mul(a, inv) != 1 {
            fails.push(fail("inverse", format!("inverse: 1/{a} = {inv} but {a}*{inv} != 1"), json!({"a": a})));
        }
    }
    if Octet::zero().byte() != 0 || Octet::one().byte() != 1 {
        fails.push(fail("consts", "zero()/one() wrong".into(), Value::Null));
    }
    fails.truncate(1);
    rep.absorb("alpha", SubOutcome { stats: st, failures: fails, wall_s: started.elapsed().as_secs_f64() });
}

pub fn replay(sub: &str, case: &Value) -> Result<(), String> {
    match sub {
        "pairs" => check_pair(case["a"].as_u64().unwrap() as u8, case["b"].as_u64().unwrap() as u8),
        "triples" => check_triple_row(case["a"].as_u64().unwrap() as u8),
        "alpha" => {
            let i = case["i"].as_u64().unwrap() as usize;
            if i == 256 {
                return if catch(|| Octet::alpha(256)).is_ok() { Err("alpha(256) accepted".into()) } else { Ok(()) };
            }
            let got = Octet::alpha(i).byte();
            if got == gf_pow(2, i as u32) { Ok(()) } else { Err(format!("alpha({i}) = {got}")) }
        }
        "div0" => {
            let a = case["a"].as_u64().unwrap() as u8;
            if catch(|| (&Octet::new(a) / &Octet::zero()).byte()).is_ok() { Err("x/0 did not panic".into()) } else { Ok(()) }
        }
        "inverse" => {
            let a = case["a"].as_u64().unwrap() as u8;
            let inv = (Octet::one() / Octet::new(a)).byte();
            if gf_mul(a, inv) == 1 { Ok(()) } else { Err(format!("1/{a} = {inv}")) }
        }
        _ => Err(format!("unknown sub-check {sub}")),
    }
}

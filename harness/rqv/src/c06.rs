//! C06 — every block size is encodable; intermediate symbols satisfy all constraints.
//! Enumerates all 477 K' x {dense, sparse} x {direct solve, plan replay} x data.

use crate::codec::{block_cfg, make_data, symbols_of, DataClass};
use crate::reference as rf;
use crate::util::{catch, run_items, simple_failure, Report, SplitMix, Stats, Tier};
use crate::Ctx;
use raptorq::{SourceBlockEncoder, SourceBlockEncodingPlan};
use serde_json::{json, Value};

#[derive(Debug, Clone)]
pub struct Item {
    k: u32,
    t: usize,
    one_hot: bool,
    seed: u64,
    dense: bool,
    sparse: bool,
}

fn check_item(it: &Item, st: &mut Stats) -> Result<(), String> {
    let k = it.k;
    let pr = rf::params(k);
    let class = if it.one_hot { DataClass::OneHot } else { DataClass::Random };
    let data = make_data(class, it.seed, k as usize * it.t);
    let src = symbols_of(&data, it.t);
    let cfg = block_cfg(k as usize, it.t);
    let mut all: Vec<(String, Vec<Vec<u8>>)> = vec![];
    let mut backends: Vec<(&str, u32)> = vec![];
    if it.sparse {
        backends.push(("sparse", 0));
    }
    if it.dense {
        backends.push(("dense", u32::MAX));
    }
    for (name, thr) in backends {
        // direct solve
        let enc = catch(|| SourceBlockEncoder::verif_new_unplanned(0, &cfg, &data, thr))
            .map_err(|p| format!("K={k} (K'={}) {name} direct: building the encoder panicked: {p}", pr.kp))?
            .ok_or_else(|| format!("K={k} (K'={}) {name} direct: solver reports a singular encoding matrix", pr.kp))?;
        let c_direct = enc.verif_intermediate_symbols();
        rf::check_intermediate(&pr, &c_direct, &src).map_err(|m| format!("K={k} (K'={}) {name} direct: {m}", pr.kp))?;
        st.eval();
        st.nt(crate::util::fnv_str(&format!("{k}/{name}/direct/{}", it.one_hot)));
        // plan replay
        let plan = catch(|| SourceBlockEncodingPlan::verif_generate(k as u16, thr))
            .map_err(|p| format!("K={k} (K'={}) {name}: generating a plan panicked: {p}", pr.kp))?;
        let enc2 = catch(|| SourceBlockEncoder::with_encoding_plan(0, &cfg, &data, &plan))
            .map_err(|p| format!("K={k} (K'={}) {name}: replaying a plan panicked: {p}", pr.kp))?;
        let c_plan = enc2.verif_intermediate_symbols();
        rf::check_intermediate(&pr, &c_plan, &src).map_err(|m| format!("K={k} (K'={}) {name} plan replay: {m}", pr.kp))?;
        st.eval();
        st.nt(crate::util::fnv_str(&format!("{k}/{name}/replay/{}", it.one_hot)));
        if c_plan != c_direct {
            return Err(format!("K={k} (K'={}) {name}: plan replay and direct solve give different intermediate symbols", pr.kp));
        }
        if enc.repair_packets(0, 3) != enc2.repair_packets(0, 3) || enc.source_packets() != enc2.source_packets() {
            return Err(format!("K={k} (K'={}) {name}: encoders from direct solve and plan replay emit different packets", pr.kp));
        }
        all.push((name.to_string(), c_direct));
    }
    if all.len() == 2 && all[0].1 != all[1].1 {
        return Err(format!("K={k} (K'={}): dense and sparse back-ends give different intermediate symbols", pr.kp));
    }
    // production entry points (threshold 250, cache) for the same data
    if it.sparse {
        let plan = catch(|| SourceBlockEncodingPlan::generate(k as u16)).map_err(|p| format!("K={k}: SourceBlockEncodingPlan::generate panicked: {p}"))?;
        let e1 = catch(|| SourceBlockEncoder::with_encoding_plan(0, &cfg, &data, &plan)).map_err(|p| format!("K={k}: with_encoding_plan panicked: {p}"))?;
        let c1 = e1.verif_intermediate_symbols();
        if c1 != all[0].1 {
            return Err(format!("K={k} (K'={}): production plan gives different intermediate symbols than the direct solve", pr.kp));
        }
        st.eval();
        st.nt(crate::util::fnv_str(&format!("{k}/production/replay/{}", it.one_hot)));
        if k <= 2000 {
            let e2 = catch(|| SourceBlockEncoder::new(0, &cfg, &data)).map_err(|p| format!("K={k}: SourceBlockEncoder::new panicked: {p}"))?;
            if e2 != e1 {
                return Err(format!("K={k}: SourceBlockEncoder::new differs from with_encoding_plan(generate(K))"));
            }
            st.eval();
        }
    }
    st.class_if(it.dense, "dense back-end");
    st.class_if(it.sparse, "sparse back-end");
    st.class_if(k < pr.kp, "one padding symbol (K = K'-1)");
    st.class_if(it.one_hot, "one-hot data");
    st.sample(|| json!({"K": k, "K'": pr.kp, "L": pr.l, "T": it.t, "dense": it.dense, "sparse": it.sparse, "one_hot": it.one_hot}));
    Ok(())
}

pub fn run(ctx: &Ctx, rep: &mut Report) {
    rep.rule = "enumeration of all 477 K' of Table 2 (and K = K'-1 for each, and the smallest K of the row - maximal padding - for every second row quick / every row thorough): encoders are built by direct solve and by plan replay on the sparse back-end (all K') and on the dense back-end (K' <= 6000 quick, all K' thorough), from random T=3 data and (quick: for K' <= 3000 and every 5th larger K') from one-hot data and with K = K'-1; every set of intermediate symbols is checked against all S LDPC, H HDPC and K' LT relations evaluated by the reference model; direct == replay, dense == sparse, production plan == direct. Each (K, back-end, mode, data class) is a distinct non-trivial case.".into();
    rep.exhaustive = true;
    rep.assumptions.push("exhaustive over K' (all 477) and K'-1; data is sampled (the relations are linear in the data: C09)".into());
    if ctx.tier == Tier::Quick {
        rep.assumptions.push("quick tier: dense back-end only for K' <= 6000 (dense solve at K'=56403 takes 48 s); thorough covers all".into());
    }
    let mut rng = SplitMix::new(crate::util::mix(ctx.seed, 606));
    let dense_limit = ctx.tier.pick(6000u32, 60000);
    let mut items = vec![];
    // big ones first so that the long poles start early
    let mut kps: Vec<u32> = rf::tables().t2.iter().map(|r| r.0).collect();
    let kps_sorted = kps.clone();
    let nrows = kps.len();
    kps.reverse();
    let phase = (crate::util::mix(ctx.seed, 6) % 5) as usize;
    for (i, kp) in kps.into_iter().enumerate() {
        let dense = kp <= dense_limit;
        items.push(Item { k: kp, t: 3, one_hot: false, seed: rng.next_u64(), dense, sparse: true });
        // quick tier: the two extra data/padding variants for every K' <= 3000 and every 5th above
        let extra = ctx.tier == Tier::Thorough || kp <= 3000 || i % 5 == phase;
        // the smallest K of the row: as many padding symbols as the row allows
        if i + 1 < nrows && (ctx.tier == Tier::Thorough || i % 2 == (phase % 2)) {
            let lo = kps_sorted[nrows - 2 - i] + 1;
            if lo < kp {
                items.push(Item { k: lo, t: 2, one_hot: false, seed: rng.next_u64(), dense: dense && kp <= 3000, sparse: true });
            }
        }
        if extra {
            items.push(Item { k: kp, t: 1, one_hot: true, seed: rng.next_u64(), dense: dense && kp <= 2000, sparse: true });
            items.push(Item { k: kp - 1, t: 2, one_hot: false, seed: rng.next_u64(), dense: dense && kp <= 3000, sparse: true });
        }
    }
    // limit concurrent giants: dense at K' > 20000 needs ~400 MB each; rayon with 16 threads is fine (<= 7 GB)
    let mut out = run_items(&items, |it, st| {
        let r = match catch(|| check_item(it, st)) {
            Ok(r) => r,
            Err(p) => Err(format!("K={}: panic: {p}", it.k)),
        };
        r.map_err(|m| {
            let kind = if m.contains("relation") {
                "constraint"
            } else if m.contains("singular") {
                "singular"
            } else if m.contains("panic") {
                "panic"
            } else {
                "mismatch"
            };
            simple_failure("encodable", m, format!("encodable:{kind}"), json!({"k": it.k, "t": it.t, "one_hot": it.one_hot, "seed": it.seed, "dense": it.dense, "sparse": it.sparse}))
        })
    });
    out.failures.sort_by_key(|f| f.case["k"].as_u64().unwrap_or(0));
    out.failures.truncate(1);
    rep.absorb("encodable", out);
}

pub fn replay(_sub: &str, case: &Value) -> Result<(), String> {
    check_item(
        &Item {
            k: case["k"].as_u64().unwrap() as u32,
            t: case["t"].as_u64().unwrap() as usize,
            one_hot: case["one_hot"].as_bool().unwrap(),
            seed: case["seed"].as_u64().unwrap(),
            dense: case["dense"].as_bool().unwrap(),
            sparse: case["sparse"].as_bool().unwrap(),
        },
        &mut Stats::new(),
    )
}

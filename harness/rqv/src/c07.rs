//! C07 — results depend only on the inputs, not on build, CPU kernel, back-end or caching.
//! The driver builds the `digest` program in several cargo configurations and runs the same
//! seeded workload through every configuration each build offers; this module compares the
//! per-(case, configuration) SHA-256 digests. Files: /verif/logs/C07-<group>-<build>.txt

use crate::codec::{block_cfg, make_data, DataClass};
use crate::reference as rf;
use crate::util::{catch, run_items, simple_failure, Failure, Report, SplitMix, Stats, SubOutcome, Tier, VERIF_DIR};
use raptorq::{EncodingPacket, SourceBlockEncoder, SourceBlockEncodingPlan};
use crate::Ctx;
use serde_json::{json, Value};
use std::collections::BTreeMap;
use std::time::Instant;


/// One block size through every construction this build offers; all must emit the same packets.
#[derive(Debug, Clone)]
pub struct Item {
    k: u32,
    t: usize,
    seed: u64,
}

fn packets_of(e: &SourceBlockEncoder, k: u32) -> Vec<EncodingPacket> {
    let mut v = e.source_packets();
    v.extend(e.repair_packets(0, 4));
    v.extend(e.repair_packets(5000, 1));
    v.extend(e.repair_packets((1 << 24) - 1 - k, 1));
    v
}

fn check_item(it: &Item, st: &mut Stats) -> Result<(), String> {
    let k = it.k;
    let kp = rf::params(k).kp;
    let data = make_data(DataClass::Random, it.seed, k as usize * it.t);
    let cfg = block_cfg(k as usize, it.t);
    let mut built: Vec<(String, Vec<EncodingPacket>)> = vec![];
    let mut add = |name: &str, f: &mut dyn FnMut() -> Option<SourceBlockEncoder>| -> Result<(), String> {
        let e = catch(|| f()).map_err(|p| format!("K={k} (K'={kp}) construction '{name}' panicked: {p}"))?.ok_or_else(|| format!("K={k} (K'={kp}) construction '{name}' failed (singular)"))?;
        built.push((name.to_string(), packets_of(&e, k)));
        Ok(())
    };
    // production entry points
    add("unplanned, default threshold", &mut || SourceBlockEncoder::verif_new_unplanned(0, &cfg, &data, 250))?;
    add("with_encoding_plan(generate(K))", &mut || Some(SourceBlockEncoder::with_encoding_plan(0, &cfg, &data, &SourceBlockEncodingPlan::generate(k as u16))))?;
    if kp <= 3000 {
        // (the process-wide cache keeps up to 64 plans alive: only moderate sizes go through it)
        add("new (plan cache, miss or hit)", &mut || Some(SourceBlockEncoder::new(0, &cfg, &data)))?;
        add("new (plan cache, second call)", &mut || Some(SourceBlockEncoder::new(0, &cfg, &data)))?;
    }
    if kp <= 1200 {
        add("unplanned, dense", &mut || SourceBlockEncoder::verif_new_unplanned(0, &cfg, &data, u32::MAX))?;
        add("unplanned, sparse", &mut || SourceBlockEncoder::verif_new_unplanned(0, &cfg, &data, 0))?;
        add("plan generated on the dense back-end", &mut || Some(SourceBlockEncoder::with_encoding_plan(0, &cfg, &data, &SourceBlockEncodingPlan::verif_generate(k as u16, u32::MAX))))?;
        add("plan generated on the sparse back-end", &mut || Some(SourceBlockEncoder::with_encoding_plan(0, &cfg, &data, &SourceBlockEncodingPlan::verif_generate(k as u16, 0))))?;
    }
    for (name, pk) in &built[1..] {
        st.eval();
        if pk != &built[0].1 {
            let i = pk.iter().zip(&built[0].1).position(|(a, b)| a != b).unwrap_or(0);
            return Err(format!(
                "K={k} (K'={kp}) T={}: construction '{name}' and '{}' emit different packets (first difference: packet {i}, ESI {})",
                it.t,
                built[0].0,
                built[0].1[i].payload_id().encoding_symbol_id()
            ));
        }
    }
    st.nt(crate::util::fnv_u64s(&[k as u64, it.t as u64]));
    st.class_n("constructions compared", built.len() as u64);
    st.class_if(k < kp, "K < K' (padding)");
    st.sample(|| json!({"K": k, "K'": kp, "T": it.t, "constructions": built.iter().map(|b| b.0.clone()).collect::<Vec<_>>()}));
    Ok(())
}

fn constructions(ctx: &Ctx) -> SubOutcome {
    let mut rng = SplitMix::new(crate::util::mix(ctx.seed, 707));
    let mut items = vec![];
    let mut kps: Vec<u32> = rf::tables().t2.iter().map(|r| r.0).collect();
    kps.reverse();
    let phase = (crate::util::mix(ctx.seed, 7) % 4) as usize;
    for (i, kp) in kps.into_iter().enumerate() {
        items.push(Item { k: kp, t: 2, seed: rng.next_u64() });
        if ctx.tier == Tier::Thorough || kp <= 2000 || i % 4 == phase {
            // a K strictly inside the row (padding symbols present)
            let lo = rf::params(kp).kp; // = kp
            let _ = lo;
            let below = if kp > 10 { kp - 1 - (rng.below(3) as u32) } else { kp };
            if rf::params(below).kp == kp && below != kp {
                items.push(Item { k: below, t: 1 + rng.below(4) as usize, seed: rng.next_u64() });
            }
        }
    }
    let mut out = run_items(&items, |it, st| {
        let r = match catch(|| check_item(it, st)) {
            Ok(r) => r,
            Err(p) => Err(format!("K={}: panic: {p}", it.k)),
        };
        r.map_err(|m| {
            let kind = if m.contains("panicked") || m.contains("panic:") {
                "panic"
            } else if m.contains("singular") {
                "singular"
            } else {
                "differ"
            };
            simple_failure("constructions", m, format!("constructions:{kind}"), json!({"k": it.k, "t": it.t, "seed": it.seed}))
        })
    });
    out.failures.sort_by_key(|f| f.case["k"].as_u64().unwrap_or(0));
    out.failures.truncate(1);
    out
}

/// `rqv ADVDIGEST <seed> <n>`: digests of decoder outcomes on adversarial arrival sequences
/// (several consecutive rank-deficient prefixes, see c02::adversarial_sequence), one line per
/// (case, configuration) in the digest program's format. The driver runs it in the release and in
/// the chk build of this harness; the comparison below treats the two files as group "V".
pub fn adv_digest(seed: u64, n: u64) {
    use crate::util::{hex, Sha256};
    use raptorq::SourceBlockDecoder;
    println!("# build: std=true debug_assertions={}", cfg!(debug_assertions));
    let items: Vec<u64> = (0..n).collect();
    let lines: Vec<String> = {
        use rayon::prelude::*;
        items
            .par_iter()
            .map(|&i| {
                let r = crate::util::mix(seed, 0xAD7 + i);
                let k = crate::c02::adversarial_k(r);
                let depth = 1 + (r >> 40) % 4;
                let Some(seq) = crate::c02::adversarial_sequence(k, r, depth as u32) else {
                    return String::new();
                };
                let t = 2usize;
                let data = make_data(DataClass::Random, r, k as usize * t);
                let cfg = block_cfg(k as usize, t);
                let enc = SourceBlockEncoder::new(0, &cfg, &data);
                let src = enc.source_packets();
                let pk = |e: u32| if e < k { src[e as usize].clone() } else { enc.repair_packets(e - k, 1).pop().unwrap() };
                let mut out = String::new();
                for (name, thr) in [("thr=default", None), ("thr=0", Some(0u32)), ("thr=inf", Some(u32::MAX))] {
                    let res = catch(|| {
                        let mut h = Sha256::new();
                        // one packet per call
                        let mut d = SourceBlockDecoder::new(0, &cfg, (k as usize * t) as u64);
                        if let Some(th) = thr {
                            d.verif_set_sparse_threshold(th);
                        }
                        for &e in &seq {
                            match d.decode(std::iter::once(pk(e))) {
                                Some(b) => {
                                    h.update(&[1]);
                                    h.update(&b);
                                }
                                None => h.update(&[0]),
                            }
                        }
                        // every prefix from K symbols on as one batch into a fresh decoder
                        for cut in k as usize..=seq.len() {
                            let mut d = SourceBlockDecoder::new(0, &cfg, (k as usize * t) as u64);
                            if let Some(th) = thr {
                                d.verif_set_sparse_threshold(th);
                            }
                            match d.decode(seq[..cut].iter().map(|&e| pk(e)).collect::<Vec<_>>()) {
                                Some(b) => {
                                    h.update(&[1]);
                                    h.update(&b);
                                }
                                None => h.update(&[0]),
                            }
                        }
                        hex(&h.finish())
                    });
                    let dg = res.unwrap_or_else(|_| "PANIC".to_string());
                    out.push_str(&format!("{i} adversarial,{name} 1 {dg}\n"));
                }
                out
            })
            .collect()
    };
    for l in lines {
        print!("{l}");
    }
}

pub fn run(ctx: &Ctx, rep: &mut Report) {
    rep.rule = "a seeded workload of encode/decode cases: three quarters single-block (K weighted over 1..=60 / ..=200 / 201..=300 (group A) or ..=1000 (group B, release builds only), T in {1, 1..8, 63..66, 1..130, 16, 40..99}, 4-15 repair ESIs from near/uniform/far classes, an erasure pattern with overhead -1..2 so that undecodable sets occur), one quarter object-level (Al in {1,2,4,8}, T <= 40, Z <= 4, N <= 3, F not a multiple of T, 4..9 repair packets per block, shuffled delivery with up to 5 losses, through Encoder/Decoder), is generated once per seed, together with 4 000 default derivations `with_defaults(F, P')` (F log-uniform below 2^40, P' over 1..=65535) and six objects of 5 kB..3 MB encoded through `Encoder::with_defaults` / `EncoderBuilder` (the configuration a build derives on its own is an output too), and run in every configuration: builds {release, chk = release + debug assertions + overflow checks} x {std, no_std}; in the release-std build additionally every forced kernel {default, AVX-512, AVX2, SSSE3, portable} x sparse threshold {0, 250, infinity} on encoder and decoder x plan mode {new (twice: second served by the cache), with_encoding_plan, unplanned}; in the other builds default kernel x 3 thresholds x {new, unplanned}. Oracle (differential): SHA-256 over (all source packets, the repair packets, decode outcome tag, decoded bytes) must be identical for every configuration of every build. In addition, inside the release-std harness, every one of the 477 block sizes K' of Table 2 (and a K just below it in the same row: all K' <= 2000, every 4th above in the quick tier, all in the thorough tier) is built through every construction - unplanned at the default threshold, with_encoding_plan(generate(K)), new() twice (K' <= 3000), unplanned and planned on the forced dense and sparse back-ends (K' <= 1200) - and all must emit identical source packets and identical repair packets (ESI K..K+3, K+5000, 2^24-1). Group V: decoder outcomes (one packet per call, and every prefix as one batch into a fresh decoder, at the three sparse thresholds) on arrival sequences constructed with a rank oracle so that several consecutive prefixes of >= K symbols are rank deficient, digested in the release and in the chk build of the harness. Non-trivial = a case decoded through the solver (a source symbol missing) or a block size compared across constructions; distinct = (case, build, configuration) triples / (K, T) pairs.".into();
    rep.assumptions.push("NEON kernels cannot execute on this x86-64 host; 32-bit x86 builds are not installed; no_std builds compile only the portable kernels (a second, hook-free route to them)".into());
    let started = Instant::now();
    let dir = format!("{VERIF_DIR}/logs");
    let mut groups: BTreeMap<String, Vec<(String, String)>> = BTreeMap::new(); // group -> (build, path)
    if let Ok(rd) = std::fs::read_dir(&dir) {
        for e in rd.flatten() {
            let name = e.file_name().to_string_lossy().to_string();
            if let Some(rest) = name.strip_prefix("C07-").and_then(|r| r.strip_suffix(".txt")) {
                if let Some((group, build)) = rest.split_once('-') {
                    groups.entry(group.to_string()).or_default().push((build.to_string(), e.path().to_string_lossy().to_string()));
                }
            }
        }
    }
    let mut st = Stats::new();
    let mut failures: Vec<Failure> = vec![];
    if groups.is_empty() {
        failures.push(simple_failure("digests", "no digest files found (driver did not run the builds)".into(), "digests:missing".into(), Value::Null));
    }
    for (group, files) in &groups {
        // case -> digest -> list of "build:config"
        let mut by_case: BTreeMap<u64, BTreeMap<String, Vec<String>>> = BTreeMap::new();
        let mut nontrivial: BTreeMap<u64, bool> = BTreeMap::new();
        let mut builds_seen = vec![];
        for (build, path) in files {
            let text = std::fs::read_to_string(path).unwrap_or_default();
            let mut n = 0u64;
            for line in text.lines() {
                if line.starts_with('#') || line.trim().is_empty() {
                    continue;
                }
                let f: Vec<&str> = line.split(' ').collect();
                if f.len() != 4 {
                    continue;
                }
                let case: u64 = f[0].parse().unwrap_or(u64::MAX);
                by_case.entry(case).or_default().entry(f[3].to_string()).or_default().push(format!("{build}:{}", f[1]));
                if f[2] == "1" {
                    nontrivial.insert(case, true);
                    st.nt_enumerated(1);
                }
                n += 1;
            }
            st.evals(n);
            st.class_n(&format!("group {group}: digests from build {build}"), n);
            builds_seen.push(build.clone());
            if n == 0 {
                failures.push(simple_failure("digests", format!("build {build} of group {group} produced no digests (crash?)"), format!("digests:empty:{build}"), json!({"group": group, "build": build, "seed": ctx.seed})));
            }
        }
        st.class_n(&format!("group {group}: cases"), by_case.len() as u64);
        st.class_n(&format!("group {group}: cases decoded through the solver"), nontrivial.len() as u64);
        for (case, digests) in &by_case {
            if digests.len() > 1 && failures.is_empty() {
                // minority configurations are the interesting ones
                let mut v: Vec<(&String, &Vec<String>)> = digests.iter().collect();
                v.sort_by_key(|x| x.1.len());
                let minority: Vec<String> = v[0].1.iter().take(6).cloned().collect();
                let majority: Vec<String> = v[v.len() - 1].1.iter().take(3).cloned().collect();
                let kind = minority[0].split(':').next().unwrap_or("").to_string();
                failures.push(simple_failure(
                    "digests",
                    format!("group {group} case {case}: {} different digests; e.g. {minority:?} disagree with {majority:?} (and {} more)", digests.len(), v[v.len() - 1].1.len().saturating_sub(3)),
                    format!("digests:differ:{kind}"),
                    json!({"group": group, "case": case, "seed": ctx.seed, "minority": minority, "majority": majority}),
                ));
            }
        }
        if let Some((case, digests)) = by_case.iter().next() {
            let d = digests.iter().next().unwrap();
            st.sample(|| json!({"group": group, "case": case, "digest": d.0, "configurations_agreeing": d.1.len(), "examples": d.1.iter().take(4).collect::<Vec<_>>(), "builds": builds_seen}));
        }
    }
    failures.truncate(1);
    rep.absorb("digests", SubOutcome { stats: st, failures, wall_s: started.elapsed().as_secs_f64() });
    rep.absorb("constructions", constructions(ctx));
}

pub fn replay(sub: &str, case: &Value) -> Result<(), String> {
    if sub == "constructions" {
        return check_item(&Item { k: case["k"].as_u64().unwrap() as u32, t: case["t"].as_u64().unwrap() as usize, seed: case["seed"].as_u64().unwrap() }, &mut Stats::new());
    }
    Err("C07 replays are executed by the driver: ./check C07 --replay <file> re-runs the recorded seed's workload in all builds".into())
}

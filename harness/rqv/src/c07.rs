//! C07 — results depend only on the inputs, not on build, CPU kernel, back-end or caching.
//! The driver builds the `digest` program in several cargo configurations and runs the same
//! seeded workload through every configuration each build offers; this module compares the
//! per-(case, configuration) SHA-256 digests. Files: /verif/logs/C07-<group>-<build>.txt

use crate::util::{simple_failure, Failure, Report, Stats, SubOutcome, VERIF_DIR};
use crate::Ctx;
use serde_json::{json, Value};
use std::collections::BTreeMap;
use std::time::Instant;

pub fn run(ctx: &Ctx, rep: &mut Report) {
    rep.rule = "a seeded workload of encode/decode cases: three quarters single-block (K weighted over 1..=60 / ..=200 / 201..=300 (group A) or ..=1000 (group B, release builds only), T in {1, 1..8, 63..66, 1..130, 16, 40..99}, 4-15 repair ESIs from near/uniform/far classes, an erasure pattern with overhead -1..2 so that undecodable sets occur), one quarter object-level (Al in {1,2,4,8}, T <= 40, Z <= 4, N <= 3, F not a multiple of T, 4..9 repair packets per block, shuffled delivery with up to 5 losses, through Encoder/Decoder), is generated once per seed, together with 4 000 default derivations `with_defaults(F, P')` (F log-uniform below 2^40, P' over 1..=65535) and six objects of 5 kB..3 MB encoded through `Encoder::with_defaults` / `EncoderBuilder` (the configuration a build derives on its own is an output too), and run in every configuration: builds {release, chk = release + debug assertions + overflow checks} x {std, no_std}; in the release-std build additionally every forced kernel {default, AVX-512, AVX2, SSSE3, portable} x sparse threshold {0, 250, infinity} on encoder and decoder x plan mode {new (twice: second served by the cache), with_encoding_plan, unplanned}; in the other builds default kernel x 3 thresholds x {new, unplanned}. Oracle (differential): SHA-256 over (all source packets, the repair packets, decode outcome tag, decoded bytes) must be identical for every configuration of every build. Non-trivial = a case decoded through the solver (a source symbol missing); distinct = (case, build, configuration) triples.".into();
    rep.assumptions.push("NEON kernels cannot execute on this x86-64 host; 32-bit x86 builds are not installed; no_std builds compile only the portable kernels (a second, hook-free route to them)".into());
    let started = Instant::now();
    let dir = format!("{VERIF_DIR}/logs");
    let mut groups: BTreeMap<String, Vec<(String, String)>> = BTreeMap::new(); // group -> (build, path)
    if let Ok(rd) = std::fs::read_dir(&dir) {
        for e in rd.flatten() {
            let name = e.file_name().to_string_lossy().to_string();
            if let Some(rest) = name.strip_prefix("C07-").and_then(|r| r.strip_suffix(".txt")) {
                if let Some((group, build)) = rest.split_once('-') {
                    groups.entry(group.to_string()).or_default().push((build.to_string(), e.path().to_string_lossy().to_string()));
                }
            }
        }
    }
    let mut st = Stats::new();
    let mut failures: Vec<Failure> = vec![];
    if groups.is_empty() {
        failures.push(simple_failure("digests", "no digest files found (driver did not run the builds)".into(), "digests:missing".into(), Value::Null));
    }
    for (group, files) in &groups {
        // case -> digest -> list of "build:config"
        let mut by_case: BTreeMap<u64, BTreeMap<String, Vec<String>>> = BTreeMap::new();
        let mut nontrivial: BTreeMap<u64, bool> = BTreeMap::new();
        let mut builds_seen = vec![];
        for (build, path) in files {
            let text = std::fs::read_to_string(path).unwrap_or_default();
            let mut n = 0u64;
            for line in text.lines() {
                if line.starts_with('#') || line.trim().is_empty() {
                    continue;
                }
                let f: Vec<&str> = line.split(' ').collect();
                if f.len() != 4 {
                    continue;
                }
                let case: u64 = f[0].parse().unwrap_or(u64::MAX);
                by_case.entry(case).or_default().entry(f[3].to_string()).or_default().push(format!("{build}:{}", f[1]));
                if f[2] == "1" {
                    nontrivial.insert(case, true);
                    st.nt_enumerated(1);
                }
                n += 1;
            }
            st.evals(n);
            st.class_n(&format!("group {group}: digests from build {build}"), n);
            builds_seen.push(build.clone());
            if n == 0 {
                failures.push(simple_failure("digests", format!("build {build} of group {group} produced no digests (crash?)"), format!("digests:empty:{build}"), json!({"group": group, "build": build, "seed": ctx.seed})));
            }
        }
        st.class_n(&format!("group {group}: cases"), by_case.len() as u64);
        st.class_n(&format!("group {group}: cases decoded through the solver"), nontrivial.len() as u64);
        for (case, digests) in &by_case {
            if digests.len() > 1 && failures.is_empty() {
                // minority configurations are the interesting ones
                let mut v: Vec<(&String, &Vec<String>)> = digests.iter().collect();
                v.sort_by_key(|x| x.1.len());
                let minority: Vec<String> = v[0].1.iter().take(6).cloned().collect();
                let majority: Vec<String> = v[v.len() - 1].1.iter().take(3).cloned().collect();
                let kind = minority[0].split(':').next().unwrap_or("").to_string();
                failures.push(simple_failure(
                    "digests",
                    format!("group {group} case {case}: {} different digests; e.g. {minority:?} disagree with {majority:?} (and {} more)", digests.len(), v[v.len() - 1].1.len().saturating_sub(3)),
                    format!("digests:differ:{kind}"),
                    json!({"group": group, "case": case, "seed": ctx.seed, "minority": minority, "majority": majority}),
                ));
            }
        }
        if let Some((case, digests)) = by_case.iter().next() {
            let d = digests.iter().next().unwrap();
            st.sample(|| json!({"group": group, "case": case, "digest": d.0, "configurations_agreeing": d.1.len(), "examples": d.1.iter().take(4).collect::<Vec<_>>(), "builds": builds_seen}));
        }
    }
    failures.truncate(1);
    rep.absorb("digests", SubOutcome { stats: st, failures, wall_s: started.elapsed().as_secs_f64() });
}

pub fn replay(_sub: &str, _case: &Value) -> Result<(), String> {
    Err("C07 replays are executed by the driver: ./check C07 --replay <file> re-runs the recorded seed's workload in all builds".into())
}

//! C12 — unsafe code never touches memory outside the buffers it was given.
//! Detector 1 (here): guard pages — operands are placed flush against PROT_NONE pages and the
//!   kernel grid is re-run in a child process; a fault kills the child and the parent reports
//!   the case the child recorded in a shared file.
//! Detector 2 (driver): AddressSanitizer builds of the fuzz targets replaying a generated corpus.
//! Detector 3 (here): the slab's paired borrow — returned slices lie inside the slab and are
//!   disjoint, or the call panics; results equal a model and no other symbol changes.

use crate::c11::{self, Case, Op, Path, OPS};
use crate::reference as rf;
use crate::util::{catch, fnv_u64s, mix, run_sharded, simple_failure, Failure, Report, SplitMix, Stats, SubOutcome, Tier, VERIF_DIR};
use crate::Ctx;
use proptest::prelude::*;
use raptorq::verif::{Octet, SymbolSlab};
use serde_json::{json, Value};
use std::time::Instant;

const PAGE: usize = 4096;

/// An anonymous mapping [guard page][n RW pages][guard page].
struct Guarded {
    base: *mut u8,
    pages: usize,
}

impl Guarded {
    fn new(pages: usize) -> Guarded {
        unsafe {
            let total = (pages + 2) * PAGE;
            let p = libc::mmap(std::ptr::null_mut(), total, libc::PROT_READ | libc::PROT_WRITE, libc::MAP_PRIVATE | libc::MAP_ANONYMOUS, -1, 0);
            assert!(p != libc::MAP_FAILED, "mmap failed");
            let base = p as *mut u8;
            assert_eq!(libc::mprotect(base as *mut libc::c_void, PAGE, libc::PROT_NONE), 0);
            assert_eq!(libc::mprotect(base.add((pages + 1) * PAGE) as *mut libc::c_void, PAGE, libc::PROT_NONE), 0);
            Guarded { base, pages }
        }
    }
    /// slice of `len` bytes whose end is flush against the trailing guard page
    fn end_flush(&mut self, len: usize) -> &mut [u8] {
        assert!(len <= self.pages * PAGE);
        unsafe { std::slice::from_raw_parts_mut(self.base.add((self.pages + 1) * PAGE - len), len) }
    }
    /// slice of `len` bytes whose start is flush against the leading guard page
    fn start_flush(&mut self, len: usize) -> &mut [u8] {
        assert!(len <= self.pages * PAGE);
        unsafe { std::slice::from_raw_parts_mut(self.base.add(PAGE), len) }
    }
    fn fill(&mut self, b: u8) {
        unsafe { std::ptr::write_bytes(self.base.add(PAGE), b, self.pages * PAGE) }
    }
    fn rw(&self) -> &[u8] {
        unsafe { std::slice::from_raw_parts(self.base.add(PAGE), self.pages * PAGE) }
    }
}

impl Drop for Guarded {
    fn drop(&mut self) {
        unsafe {
            libc::munmap(self.base as *mut libc::c_void, (self.pages + 2) * PAGE);
        }
    }
}

fn record_path() -> String {
    format!("{VERIF_DIR}/logs/C12-guard-current.json")
}

/// The guard-page grid; runs in the child process, single-threaded.
pub fn guard_child(ctx: &Ctx, rep: &mut Report) {
    let started = Instant::now();
    let _ = std::fs::create_dir_all(format!("{VERIF_DIR}/logs"));
    // shared record of the case in flight
    let rec_len = 512usize;
    let file = std::fs::OpenOptions::new().read(true).write(true).create(true).truncate(true).open(record_path()).expect("record file");
    file.set_len(rec_len as u64).unwrap();
    use std::os::unix::io::AsRawFd;
    let rec = unsafe { libc::mmap(std::ptr::null_mut(), rec_len, libc::PROT_READ | libc::PROT_WRITE, libc::MAP_SHARED, file.as_raw_fd(), 0) as *mut u8 };
    assert!(rec as *mut libc::c_void != libc::MAP_FAILED);
    let record = |s: &str| unsafe {
        let b = s.as_bytes();
        let n = b.len().min(rec_len - 1);
        std::ptr::copy_nonoverlapping(b.as_ptr(), rec, n);
        std::ptr::write_bytes(rec.add(n), 0, rec_len - n);
    };
    let mut st = Stats::new();
    let mut failures: Vec<Failure> = vec![];
    let mut dest_map = Guarded::new(2);
    let mut src_map = Guarded::new(2);
    let lens = c11::lengths();
    let mut rng = SplitMix::new(mix(ctx.seed, 0xC12));
    let thorough = ctx.tier == Tier::Thorough;
    'outer: for path in c11::paths() {
        for &op in &OPS {
            for &len in &lens {
                for placement in 0..2u8 {
                    let scalars: Vec<u8> = if op == Op::Add {
                        vec![1]
                    } else if thorough {
                        vec![0, 1, 2, 0x1D, 0x80, 0xFF, rng.next_u64() as u8, rng.next_u64() as u8]
                    } else {
                        vec![1, 2, 0xFF, rng.next_u64() as u8]
                    };
                    for scalar in scalars {
                        let c = Case { path, op, len, d_off: 0, s_off: 0, scalar, content: 0, seed: rng.next_u64() };
                        if !c11::precondition_ok(&c) {
                            continue;
                        }
                        let binary = op == Op::FmaBinary;
                        let d0 = c11::fill(0, c.seed, len, false);
                        let s0 = c11::fill(0, c.seed ^ 0x5151, len, binary);
                        dest_map.fill(0xA5);
                        src_map.fill(0xA5);
                        let (d, s) = if placement == 0 { (dest_map.end_flush(len), src_map.end_flush(len)) } else { (dest_map.start_flush(len), src_map.start_flush(len)) };
                        d.copy_from_slice(&d0);
                        s.copy_from_slice(&s0);
                        let mut cj = c11::case_json(&c);
                        cj["placement"] = json!(if placement == 0 { "end-flush" } else { "start-flush" });
                        record(&cj.to_string());
                        let ran = match catch(|| c11::invoke(&c, d, s)) {
                            Ok(r) => r,
                            Err(p) => {
                                failures.push(simple_failure("guard", format!("panic: {p}"), format!("guard:{}:{:?}:panic", c11::path_name(path), op), cj.clone()));
                                break 'outer;
                            }
                        };
                        if !ran {
                            continue;
                        }
                        st.eval();
                        let want = c11::model(&c, &d0, &s0);
                        if d[..] != want[..] {
                            // a wrong value is C11's business, not a memory-safety violation
                            st.class("functional mismatch seen (judged by C11, not here)");
                        }
                        // canary on the non-guarded side
                        let rw = dest_map.rw();
                        let (lo, hi) = if placement == 0 { (0, rw.len() - len) } else { (len, rw.len()) };
                        if rw[lo..hi].iter().any(|&b| b != 0xA5) {
                            failures.push(simple_failure("guard", format!("{} {:?} len={len}: wrote outside the destination slice", c11::path_name(path), op), format!("guard:{}:{:?}:canary", c11::path_name(path), op), cj.clone()));
                            break 'outer;
                        }
                        let w = match path {
                            Path::Kernel(raptorq::verif::verif_kernels::Kernel::Avx512) | Path::Dispatch => 64,
                            Path::Kernel(raptorq::verif::verif_kernels::Kernel::Avx2) => 32,
                            Path::Kernel(raptorq::verif::verif_kernels::Kernel::Ssse3) => 16,
                            _ => 8,
                        };
                        if len % w != 0 {
                            st.nt_enumerated(1);
                        }
                        st.class(if placement == 0 { "end flush against a guard page" } else { "start flush against a guard page" });
                        st.sample(|| cj.clone());
                    }
                }
            }
        }
    }
    record("{\"done\":true}");
    rep.absorb("guard", SubOutcome { stats: st, failures, wall_s: started.elapsed().as_secs_f64() });
}

/// Parent side: run the child, interpret a fatal signal as a violation with the recorded case.
fn guard_parent(ctx: &Ctx) -> SubOutcome {
    let started = Instant::now();
    let exe = std::env::current_exe().expect("current_exe");
    let partial = format!("{VERIF_DIR}/logs/C12-guard-partial.json");
    let _ = std::fs::remove_file(&partial);
    let _ = std::fs::remove_file(record_path());
    let status = std::process::Command::new(exe)
        .args(["C12", "--tier", ctx.tier.name(), "--seed", &ctx.seed.to_string(), "--only", "guard-child", "--partial-out", &partial])
        .stdout(std::process::Stdio::null())
        .status()
        .expect("spawn guard child");
    let mut st = Stats::new();
    let mut failures = vec![];
    use std::os::unix::process::ExitStatusExt;
    if let Some(sig) = status.signal() {
        let rec = std::fs::read(record_path()).unwrap_or_default();
        let text = String::from_utf8_lossy(&rec).trim_end_matches('\0').to_string();
        let case: Value = serde_json::from_str(&text).unwrap_or(json!({"raw": text}));
        let what = format!("{} {}", case["path"].as_str().unwrap_or("?"), case["op"].as_str().unwrap_or("?"));
        failures.push(simple_failure(
            "guard",
            format!("child killed by signal {sig} while running {what} len={} ({}): access outside the operand slice", case["len"], case["placement"].as_str().unwrap_or("?")),
            format!("guard:{}:{}:fault", case["path"].as_str().unwrap_or("?"), case["op"].as_str().unwrap_or("?")),
            case,
        ));
        st.eval();
    } else if let Ok(text) = std::fs::read_to_string(&partial) {
        let v: Value = serde_json::from_str(&text).unwrap_or(Value::Null);
        st.evals(v["evaluations"].as_u64().unwrap_or(0));
        st.nt_enumerated(v["distinct_nontrivial"].as_u64().unwrap_or(0));
        if let Some(m) = v["classes"].as_object() {
            for (k, n) in m {
                st.class_n(k.trim_start_matches("guard/"), n.as_u64().unwrap_or(0));
            }
        }
        if let Some(a) = v["samples"].as_array() {
            for s in a.iter().take(3) {
                st.samples.push(s["case"].clone());
            }
        }
        if let Some(a) = v["failures"].as_array() {
            for f in a {
                failures.push(simple_failure("guard", f["message"].as_str().unwrap_or("").to_string(), f["signature"].as_str().unwrap_or("").to_string(), f["case"].clone()));
            }
        }
    } else {
        failures.push(simple_failure("guard", format!("guard child exited with {status} and left no result"), "guard:child-lost".into(), Value::Null));
    }
    SubOutcome { stats: st, failures, wall_s: started.elapsed().as_secs_f64() }
}

// --- slab paired borrow ---------------------------------------------------------------------------

#[derive(Debug, Clone)]
pub enum SlabOp {
    Add { dest: u16, src: u16 },
    Fma { dest: u16, src: u16, scalar: u8 },
    Mul { dest: u16, scalar: u8 },
    Pair { dest: u16, src: u16 },
}

#[derive(Debug, Clone)]
pub struct SlabCase {
    count: usize,
    ss: usize,
    mapping_seed: Option<u64>,
    seed: u64,
    ops: Vec<SlabOp>,
}

fn slab_strategy() -> impl Strategy<Value = SlabCase> {
    let op = prop_oneof![
        3 => (any::<u16>(), any::<u16>()).prop_map(|(dest, src)| SlabOp::Add { dest, src }),
        3 => (any::<u16>(), any::<u16>(), any::<u8>()).prop_map(|(dest, src, scalar)| SlabOp::Fma { dest, src, scalar }),
        1 => (any::<u16>(), any::<u8>()).prop_map(|(dest, scalar)| SlabOp::Mul { dest, scalar }),
        2 => (any::<u16>(), any::<u16>()).prop_map(|(dest, src)| SlabOp::Pair { dest, src }),
    ];
    (
        1usize..=40,
        prop_oneof![1usize..=9, 60usize..=70, 120usize..=136, Just(1usize), Just(64usize), Just(63usize), Just(65usize)],
        proptest::option::of(any::<u64>()),
        any::<u64>(),
        proptest::collection::vec(op, 1..40),
    )
        .prop_map(|(count, ss, mapping_seed, seed, ops)| SlabCase { count, ss, mapping_seed, seed, ops })
}

/// index mapping: raw value onto 0..count+1 (count itself = one past the end, must be refused)
fn idx(raw: u16, count: usize) -> usize {
    ((raw as usize) * (count + 1)) >> 16
}

fn slab_check(c: &SlabCase, st: &mut Stats) -> Result<(), String> {
    let mut rng = SplitMix::new(c.seed);
    let mut slab = SymbolSlab::with_zeros(c.count, c.ss);
    // physical contents
    let mut phys: Vec<Vec<u8>> = (0..c.count).map(|_| rng.bytes(c.ss)).collect();
    for i in 0..c.count {
        slab.get_mut(i).copy_from_slice(&phys[i]);
    }
    let order: Vec<usize> = match c.mapping_seed {
        Some(ms) => {
            let mut o: Vec<usize> = (0..c.count).collect();
            SplitMix::new(ms).shuffle(&mut o);
            slab.set_reorder(o.clone());
            o
        }
        None => (0..c.count).collect(),
    };
    st.class_if(c.mapping_seed.is_some(), "with reorder mapping");
    // buffer extent from the addresses of all symbols
    let base = (0..c.count).map(|i| slab.get(i).as_ptr() as usize).min().unwrap();
    let end = base + c.count * c.ss;
    let mut pairs = 0;
    let mut refusals = 0;
    let mut value_mismatch = false;
    for (n, op) in c.ops.iter().enumerate() {
        let (dest, src) = match op {
            SlabOp::Add { dest, src } | SlabOp::Fma { dest, src, .. } | SlabOp::Pair { dest, src } => (idx(*dest, c.count), idx(*src, c.count)),
            SlabOp::Mul { dest, .. } => (idx(*dest, c.count), usize::MAX),
        };
        let must_refuse = match op {
            SlabOp::Mul { .. } => dest >= c.count,
            _ => dest >= c.count || src >= c.count || dest == src,
        };
        let before = phys.clone();
        let r = catch(|| match op {
            SlabOp::Add { .. } => slab.add_assign(dest, src),
            SlabOp::Fma { scalar, .. } => slab.fma(dest, src, &Octet::new(*scalar)),
            SlabOp::Mul { scalar, .. } => slab.mulassign_scalar(dest, &Octet::new(*scalar)),
            SlabOp::Pair { .. } => {
                let (d, s) = slab.get_pair_mut(dest, src);
                let (dp, dl, sp, sl) = (d.as_ptr() as usize, d.len(), s.as_ptr() as usize, s.len());
                if dl != c.ss || sl != c.ss {
                    panic!("VERIF: pair borrow returned slices of length {dl}/{sl}, symbol size is {}", c.ss);
                }
                if dp < base || dp + dl > end || sp < base || sp + sl > end {
                    panic!("VERIF: pair borrow returned a slice outside the slab buffer");
                }
                if dp < sp + sl && sp < dp + dl {
                    panic!("VERIF: pair borrow returned overlapping slices (dest {dest}, src {src})");
                }
            }
        });
        match (r, must_refuse) {
            (Err(p), false) => {
                if p.contains("VERIF:") {
                    return Err(format!("op {n} {op:?}: {p}"));
                }
                // fma with scalar 0/1 is a documented don't-call in debug builds
                if cfg!(debug_assertions) && matches!(op, SlabOp::Fma { scalar, .. } if *scalar <= 1) {
                    continue;
                }
                return Err(format!("op {n} {op:?} (dest {dest}, src {src}, count {}): unexpected panic: {p}", c.count));
            }
            (Err(p), true) => {
                if p.contains("VERIF:") {
                    return Err(format!("op {n} {op:?}: {p}"));
                }
                refusals += 1;
                continue;
            }
            (Ok(()), true) => {
                return Err(format!("op {n} {op:?}: dest {dest}, src {src} with {} symbols was accepted (dest == src or out of range must be refused)", c.count));
            }
            (Ok(()), false) => {}
        }
        // model update on physical symbols
        match op {
            SlabOp::Add { .. } => {
                let s = before[order[src]].clone();
                for (x, y) in phys[order[dest]].iter_mut().zip(&s) {
                    *x ^= y;
                }
            }
            SlabOp::Fma { scalar, .. } => {
                let s = before[order[src]].clone();
                for (x, y) in phys[order[dest]].iter_mut().zip(&s) {
                    *x ^= rf::mul(*scalar, *y);
                }
            }
            SlabOp::Mul { scalar, .. } => {
                for x in phys[order[dest]].iter_mut() {
                    *x = rf::mul(*scalar, *x);
                }
            }
            SlabOp::Pair { .. } => pairs += 1,
        }
        // no symbol other than the destination may change (a write outside the slice the
        // operation was given); the destination's *value* is C11's business: on a mismatch the
        // model adopts the observed value and the case is only counted
        for i in 0..c.count {
            if slab.get(i) != &phys[order[i]][..] {
                if i == dest && !matches!(op, SlabOp::Pair { .. }) {
                    value_mismatch = true;
                    phys[order[i]] = slab.get(i).to_vec();
                } else {
                    return Err(format!("after op {n} {op:?}: symbol {i}, which is not the destination, changed (count {}, symbol size {})", c.count, c.ss));
                }
            }
        }
    }
    st.class_if(value_mismatch, "destination value differs from the field model (judged by C11, not here)");
    st.class_n("pair borrows checked by address", pairs);
    st.class_n("refused (dest == src or out of range)", refusals);
    if pairs > 0 && c.mapping_seed.is_some() {
        st.nt(fnv_u64s(&[c.count as u64, c.ss as u64, c.seed, c.mapping_seed.unwrap_or(0), c.ops.len() as u64]));
    }
    st.sample(|| json!({"count": c.count, "symbol_size": c.ss, "mapping": c.mapping_seed.is_some(), "ops": c.ops.len()}));
    Ok(())
}

fn slab_json(c: &SlabCase) -> Value {
    let ops: Vec<Value> = c
        .ops
        .iter()
        .map(|o| match o {
            SlabOp::Add { dest, src } => json!(["add", dest, src, 0]),
            SlabOp::Fma { dest, src, scalar } => json!(["fma", dest, src, scalar]),
            SlabOp::Mul { dest, scalar } => json!(["mul", dest, 0, scalar]),
            SlabOp::Pair { dest, src } => json!(["pair", dest, src, 0]),
        })
        .collect();
    json!({"count": c.count, "ss": c.ss, "mapping_seed": c.mapping_seed, "seed": c.seed, "ops": ops})
}

fn slab_from(v: &Value) -> SlabCase {
    SlabCase {
        count: v["count"].as_u64().unwrap() as usize,
        ss: v["ss"].as_u64().unwrap() as usize,
        mapping_seed: v["mapping_seed"].as_u64(),
        seed: v["seed"].as_u64().unwrap(),
        ops: v["ops"]
            .as_array()
            .unwrap()
            .iter()
            .map(|o| {
                let (d, s, c) = (o[1].as_u64().unwrap() as u16, o[2].as_u64().unwrap() as u16, o[3].as_u64().unwrap() as u8);
                match o[0].as_str().unwrap() {
                    "add" => SlabOp::Add { dest: d, src: s },
                    "fma" => SlabOp::Fma { dest: d, src: s, scalar: c },
                    "mul" => SlabOp::Mul { dest: d, scalar: c },
                    _ => SlabOp::Pair { dest: d, src: s },
                }
            })
            .collect(),
    }
}


/// Slab under an arbitrary (not necessarily bijective) reorder mapping: `set_reorder` takes any
/// vector, so the paired borrow's own checks are all that keeps the two slices apart and inside
/// the buffer. Whatever is accepted must be in bounds and disjoint; refusing is always fine.
#[derive(Debug, Clone)]
pub struct BadMapCase {
    count: usize,
    ss: usize,
    mapping: Vec<u16>,
    ops: Vec<SlabOp>,
}

fn badmap_strategy() -> impl Strategy<Value = BadMapCase> {
    let op = prop_oneof![
        2 => (any::<u16>(), any::<u16>()).prop_map(|(dest, src)| SlabOp::Add { dest, src }),
        2 => (any::<u16>(), any::<u16>(), 2u8..=255).prop_map(|(dest, src, scalar)| SlabOp::Fma { dest, src, scalar }),
        4 => (any::<u16>(), any::<u16>()).prop_map(|(dest, src)| SlabOp::Pair { dest, src }),
    ];
    (1usize..=12, prop_oneof![1usize..=9, Just(64usize), Just(65usize)], proptest::collection::vec(any::<u16>(), 1..=14), proptest::collection::vec(op, 1..30))
        .prop_map(|(count, ss, mapping, ops)| BadMapCase { count, ss, mapping, ops })
}

fn badmap_check(c: &BadMapCase, st: &mut Stats) -> Result<(), String> {
    let mut slab = SymbolSlab::with_zeros(c.count, c.ss);
    for i in 0..c.count {
        slab.get_mut(i).fill(i as u8 + 1);
    }
    let base = slab.get(0).as_ptr() as usize;
    let end = base + c.count * c.ss;
    // entries over 0..=count (count itself lies outside the slab), duplicates likely
    let order: Vec<usize> = c.mapping.iter().map(|r| idx(*r, c.count)).collect();
    slab.set_reorder(order.clone());
    let dup = (0..order.len()).any(|i| (0..i).any(|j| order[i] == order[j]));
    let oob = order.iter().any(|&p| p >= c.count);
    st.class_if(dup, "mapping with two logical indices on one physical symbol");
    st.class_if(oob, "mapping with an entry outside the slab");
    let (mut accepted, mut refused) = (0u64, 0u64);
    for (n, op) in c.ops.iter().enumerate() {
        let (dest, src) = match op {
            SlabOp::Add { dest, src } | SlabOp::Fma { dest, src, .. } | SlabOp::Pair { dest, src } => (idx(*dest, order.len()), idx(*src, order.len())),
            SlabOp::Mul { .. } => continue,
        };
        let phys = |i: usize| order.get(i).copied();
        let in_bounds = matches!((phys(dest), phys(src)), (Some(a), Some(b)) if a < c.count && b < c.count);
        let aliased = in_bounds && phys(dest) == phys(src);
        // arithmetic through the pair only where it cannot leave the buffer even if accepted
        let op = if in_bounds { op.clone() } else { SlabOp::Pair { dest: 0, src: 0 } };
        let r = catch(|| match &op {
            SlabOp::Add { .. } => slab.add_assign(dest, src),
            SlabOp::Fma { scalar, .. } => slab.fma(dest, src, &Octet::new(*scalar)),
            _ => {
                let (d, s) = slab.get_pair_mut(dest, src);
                let (dp, dl, sp, sl) = (d.as_ptr() as usize, d.len(), s.as_ptr() as usize, s.len());
                if dl != c.ss || sl != c.ss {
                    panic!("VERIF: pair borrow returned slices of length {dl}/{sl}, symbol size is {}", c.ss);
                }
                if dp < base || dp + dl > end || sp < base || sp + sl > end {
                    panic!("VERIF: pair borrow returned a slice outside the slab buffer");
                }
                if dp < sp + sl && sp < dp + dl {
                    panic!("VERIF: pair borrow returned overlapping slices (dest {dest}, src {src})");
                }
            }
        });
        match r {
            Err(p) if p.contains("VERIF:") => return Err(format!("op {n} {op:?} under mapping {order:?} ({} symbols): {p}", c.count)),
            Err(_) => refused += 1,
            Ok(()) => {
                if aliased {
                    return Err(format!(
                        "op {n} {op:?} under mapping {order:?}: logical {dest} and {src} are both physical symbol {:?}; the operation was accepted, i.e. ran on overlapping mutable and shared slices",
                        phys(dest)
                    ));
                }
                accepted += 1;
            }
        }
    }
    st.class_n("pairs accepted (in bounds, disjoint)", accepted);
    st.class_n("pairs refused", refused);
    if dup || oob {
        st.nt(fnv_u64s(&[c.count as u64, c.ss as u64, crate::util::fnv_u64s(&order.iter().map(|&x| x as u64).collect::<Vec<_>>()), c.ops.len() as u64]));
    }
    st.sample(|| json!({"count": c.count, "symbol_size": c.ss, "mapping": order, "ops": c.ops.len()}));
    Ok(())
}

fn badmap_json(c: &BadMapCase) -> Value {
    let inner = SlabCase { count: c.count, ss: c.ss, mapping_seed: None, seed: 0, ops: c.ops.clone() };
    let mut v = slab_json(&inner);
    v["mapping"] = json!(c.mapping);
    v
}

fn badmap_from(v: &Value) -> BadMapCase {
    let inner = slab_from(&{
        let mut w = v.clone();
        w["seed"] = json!(0);
        w
    });
    BadMapCase { count: inner.count, ss: inner.ss, mapping: v["mapping"].as_array().unwrap().iter().map(|x| x.as_u64().unwrap() as u16).collect(), ops: inner.ops }
}

fn slab_sig(m: &str) -> String {
    let kind = if m.contains("overlapping") {
        "overlap"
    } else if m.contains("outside the slab") {
        "outside"
    } else if m.contains("was accepted") {
        "accepted-illegal-pair"
    } else if m.contains("not the destination, changed") {
        "wrote-other-symbol"
    } else {
        "other"
    };
    format!("slab:{kind}")
}

pub fn run(ctx: &Ctx, rep: &mut Report) {
    if ctx.only.as_deref() == Some("guard-child") {
        guard_child(ctx, rep);
        return;
    }
    rep.rule = "guard pages: every kernel entry point (each supported private kernel + public dispatchers) x op x length in 0..=320 U {511,512,513,1280,4099} x {end of both operands flush against a PROT_NONE page, start flush after one} x 4 (quick) / 8 (thorough) scalars, in a child process; a fault is reported with the case recorded in a shared file; the unguarded side is canary-checked (wrong values are counted but judged by C11, not here). Slab: generated (count 1..=40, symbol size around 1..9 / 60..70 / 120..136, optional reorder permutation, 1..40 operations add/fma/mul/pair-borrow with indices that include dest == src and one-past-the-end): returned slices must lie inside the slab and be disjoint, illegal pairs must panic, and no symbol other than the destination may change. Slab under an arbitrary mapping (set_reorder accepts any vector: entries over 0..=count, duplicates likely, 1..14 entries): every pair the slab accepts must be two in-bounds disjoint slices and an add/fma on two logical indices of one physical symbol must be refused. AddressSanitizer replay of a generated corpus through the fuzz targets is run by the driver and merged. Non-trivial = kernel case with length not a multiple of the kernel width and an operand flush against a guard page; slab case with a pair borrow under a reorder mapping.".into();
    rep.assumptions.push("dynamic detection: only executed paths; NEON kernels excluded (x86-64 host); the packed operand of fma_binary lives in a Vec and is covered by the ASan detector, not by guard pages".into());
    if ctx.wants("guard") {
        rep.absorb("guard", guard_parent(ctx));
    }
    if ctx.only.as_deref() == Some("slab-child") {
        slab_groups(ctx, rep);
        return;
    }
    if ctx.wants("slab") {
        // the slab groups run in a child process as well: a write past the end of the slab's
        // buffer corrupts the heap, and the allocator's abort (or a fault) must neither be lost
        // nor take the other sub-checks' results with it
        slab_parent(ctx, rep);
    }
}

fn slab_groups(ctx: &Ctx, rep: &mut Report) {
    let n = ctx.tier.pick(300_000u64, 3_000_000);
    rep.absorb(
        "slab",
        run_sharded("C12", "slab", ctx.seed, n, 32, slab_strategy, slab_check, slab_json, |_, m| slab_sig(m)),
    );
    rep.absorb(
        "slab-anymap",
        run_sharded("C12", "slab-anymap", ctx.seed, n / 3, 32, badmap_strategy, badmap_check, badmap_json, |_, m| slab_sig(m)),
    );
}

/// Parent side of the slab groups: a child killed by a signal (SIGSEGV/SIGBUS: fault; SIGABRT:
/// the allocator found its heap metadata overwritten) is a violation; the replay re-runs the
/// groups with the same seed and tier, which are deterministic.
fn slab_parent(ctx: &Ctx, rep: &mut Report) {
    let started = Instant::now();
    let exe = std::env::current_exe().expect("current_exe");
    let partial = format!("{VERIF_DIR}/logs/C12-slab-partial.json");
    let _ = std::fs::remove_file(&partial);
    let status = std::process::Command::new(exe)
        .args(["C12", "--tier", ctx.tier.name(), "--seed", &ctx.seed.to_string(), "--only", "slab-child", "--partial-out", &partial])
        .stdout(std::process::Stdio::null())
        .stderr(std::process::Stdio::null())
        .status()
        .expect("spawn slab child");
    use std::os::unix::process::ExitStatusExt;
    if let Some(sig) = status.signal() {
        let mut st = Stats::new();
        st.eval();
        let case = json!({"seed": ctx.seed, "tier": ctx.tier.name()});
        let f = simple_failure(
            "slab-child",
            format!("the process running the slab groups was killed by signal {sig} (fault, or heap metadata overwritten): a slab operation accessed memory outside the slab's buffer"),
            "slab:child-signal".into(),
            case,
        );
        rep.absorb("slab", SubOutcome { stats: st, failures: vec![f], wall_s: started.elapsed().as_secs_f64() });
        return;
    }
    let Ok(text) = std::fs::read_to_string(&partial) else {
        let f = simple_failure("slab-child", format!("slab child exited with {status} and left no result"), "slab:child-lost".into(), Value::Null);
        rep.absorb("slab", SubOutcome { stats: Stats::new(), failures: vec![f], wall_s: started.elapsed().as_secs_f64() });
        return;
    };
    let v: Value = serde_json::from_str(&text).unwrap_or(Value::Null);
    for sub in ["slab", "slab-anymap"] {
        let mut st = Stats::new();
        let sc = &v["sub_checks"][sub];
        st.evals(sc["evaluations"].as_u64().unwrap_or(0));
        st.nt_enumerated(sc["distinct_nontrivial"].as_u64().unwrap_or(0));
        let prefix = format!("{sub}/");
        if let Some(m) = v["classes"].as_object() {
            for (k, n) in m {
                if let Some(name) = k.strip_prefix(&prefix) {
                    st.class_n(name, n.as_u64().unwrap_or(0));
                }
            }
        }
        let mut failures = vec![];
        if let Some(a) = v["failures"].as_array() {
            for f in a {
                if f["sub"].as_str() == Some(sub) {
                    failures.push(simple_failure(sub, f["message"].as_str().unwrap_or("").to_string(), f["signature"].as_str().unwrap_or("").to_string(), f["case"].clone()));
                }
            }
        }
        if let Some(a) = v["samples"].as_array() {
            for smp in a.iter().filter(|x| x["sub"].as_str() == Some(sub)).take(3) {
                st.samples.push(smp["case"].clone());
            }
        }
        rep.absorb(sub, SubOutcome { stats: st, failures, wall_s: sc["wall_s"].as_f64().unwrap_or(0.0) });
    }
}

pub fn replay(sub: &str, case: &Value) -> Result<(), String> {
    match sub {
        "slab" => slab_check(&slab_from(case), &mut Stats::new()),
        "slab-anymap" => badmap_check(&badmap_from(case), &mut Stats::new()),
        "slab-child" => {
            // re-run the slab groups in this process with the recorded seed and tier; if the
            // violation reproduces this process dies by the same signal, which the driver reports
            let tier = if case["tier"].as_str() == Some("thorough") { Tier::Thorough } else { Tier::Quick };
            let ctx = Ctx { tier, seed: case["seed"].as_u64().unwrap_or(1), only: Some("slab-child".into()) };
            let mut rep = Report::new("C12", tier, ctx.seed);
            slab_groups(&ctx, &mut rep);
            match rep.failures.first() {
                Some(f) => Err(f.message.clone()),
                None => Ok(()),
            }
        }
        "guard" => {
            // re-run the single case under the recorded placement; a fault kills this process,
            // which the driver reports as the violation reproducing
            let c = c11::case_from(case);
            let mut dm = Guarded::new(2);
            let mut sm = Guarded::new(2);
            let binary = c.op == Op::FmaBinary;
            let d0 = c11::fill(0, c.seed, c.len, false);
            let s0 = c11::fill(0, c.seed ^ 0x5151, c.len, binary);
            let end = case["placement"].as_str() != Some("start-flush");
            let (d, s) = if end { (dm.end_flush(c.len), sm.end_flush(c.len)) } else { (dm.start_flush(c.len), sm.start_flush(c.len)) };
            d.copy_from_slice(&d0);
            s.copy_from_slice(&s0);
            c11::invoke(&c, d, s);
            Ok(())
        }
        _ => Err(format!("unknown sub-check {sub}")),
    }
}

/// Fuzz entry: bytes -> slab shape + operations -> paired-borrow / model oracle.
pub fn fuzz_slab(data: &[u8]) -> Result<(), String> {
    use arbitrary::Unstructured;
    let mut u = Unstructured::new(data);
    let count = u.int_in_range(1..=40usize).unwrap_or(1);
    let ss = match u.int_in_range(0..=2u8).unwrap_or(0) {
        0 => u.int_in_range(1..=9usize).unwrap_or(1),
        1 => u.int_in_range(60..=70usize).unwrap_or(60),
        _ => u.int_in_range(120..=136usize).unwrap_or(120),
    };
    let mapping_seed: Option<u64> = if u.arbitrary().unwrap_or(false) { Some(u.arbitrary().unwrap_or(0)) } else { None };
    let seed: u64 = u.arbitrary().unwrap_or(0);
    let mut ops = vec![];
    while !u.is_empty() && ops.len() < 60 {
        let k: u8 = u.arbitrary().unwrap_or(0);
        let (dest, src, scalar): (u16, u16, u8) = (u.arbitrary().unwrap_or(0), u.arbitrary().unwrap_or(0), u.arbitrary().unwrap_or(0));
        ops.push(match k % 9 {
            0..=2 => SlabOp::Add { dest, src },
            3..=5 => SlabOp::Fma { dest, src, scalar },
            6 => SlabOp::Mul { dest, scalar },
            _ => SlabOp::Pair { dest, src },
        });
    }
    if ops.is_empty() {
        return Ok(());
    }
    let c = SlabCase { count, ss, mapping_seed, seed, ops };
    slab_check(&c, &mut Stats::new()).map_err(|m| format!("{m} | case {}", slab_json(&c)))
}

//! C14 — derived transmission parameters are those of RFC 6330 4.3.

use crate::reference as rf;
use crate::util::{catch, fnv_u64s, run_sharded, Report, SplitMix, Stats};
use crate::Ctx;
use proptest::prelude::*;
use raptorq::{Decoder, EncoderBuilder, ObjectTransmissionInformation};
use serde_json::{json, Value};

#[derive(Debug, Clone, PartialEq)]
pub struct Case {
    f: u64,
    p: u16,
    ws: u64,
    /// a second, larger-or-equal memory budget for the monotonicity relation
    ws2: u64,
}

fn al_of(p: u16) -> u64 {
    if p >= 64 {
        8
    } else {
        1
    }
}

fn table_kprimes() -> Vec<u64> {
    rf::tables().t2.iter().map(|r| r.0 as u64).collect()
}

/// Raw generated ingredients; the case is *constructed* from them so that it lies in the
/// property's domain (KL(N_max) defined, Z <= 255) whenever possible.
fn strategy() -> impl Strategy<Value = Case> {
    let p = prop_oneof![
        3 => 1u16..=70,
        2 => prop_oneof![Just(63u16), Just(64u16), Just(65u16), Just(71u16), Just(72u16)],
        2 => 64u16..=2000,
        2 => 1u16..=65535,
        1 => prop_oneof![Just(65535u16), Just(65528u16), Just(1024u16), Just(1023u16), Just(1025u16), Just(127u16), Just(128u16), Just(129u16), Just(255u16), Just(256u16), Just(257u16), Just(511u16), Just(512u16), Just(513u16)],
    ];
    (p, any::<u64>(), any::<u64>(), any::<u64>(), 0u8..10, 0u8..8, -2i64..=2, -2i64..=2).prop_map(
        |(p, r1, r2, r3, ws_mode, f_mode, dws, df)| {
            let al = al_of(p);
            let ss = al;
            let t = (p as u64) - (p as u64) % al;
            let n_max = (t / (ss * al)).max(1);
            let kps = table_kprimes();
            let sub = |n: u64| (t + al * n - 1) / (al * n);
            let min_ws = 10 * al * sub(n_max);
            let adj = |base: u64, d: i64| -> u64 {
                if d < 0 {
                    base.saturating_sub((-d) as u64)
                } else {
                    base.saturating_add(d as u64)
                }
            };
            let pick_n = 1 + r2 % n_max;
            let pick_kp = kps[(r3 % kps.len() as u64) as usize];
            let ws = match ws_mode {
                // exactly at / next to the budget that admits K' = pick_kp with pick_n sub-blocks
                0 | 1 => adj(pick_kp * al * sub(pick_n), dws),
                // exactly at / next to the budget for N_max
                2 => adj(pick_kp * al * sub(n_max), dws),
                // smallest admissible budget and its neighbours
                3 => adj(min_ws, dws),
                // quotient WS/(Al*sub) around a multiple of 2^32 (narrowing hazards)
                4 => adj(((1 + r2 % 64) << 32).saturating_mul(al * sub(pick_n)), dws),
                5 => adj((1u64 << 32).saturating_mul(al * sub(n_max)), dws),
                // log-uniform over the whole u64 range above the minimum
                6 | 7 => {
                    let bits = 1 + r2 % 64;
                    let v = if bits == 64 { r3 | (1 << 63) } else { (1u64 << (bits - 1)) | (r3 & ((1u64 << (bits - 1)) - 1)) };
                    v.max(min_ws)
                }
                8 => u64::MAX - (r2 % 3),
                // the library default
                _ => 10 * 1024 * 1024,
            }
            .max(1);
            let ws2 = match r1 % 4 {
                0 => ws,
                1 => ws.saturating_add(1 + r3 % 1000),
                2 => ws.saturating_mul(2 + r3 % 5),
                _ => ws.saturating_add(r3 >> (r3 % 64)),
            };
            // F relative to the block structure the reference derives
            let klm = rf::kl(ws, t, al, n_max).unwrap_or(10);
            let z_target = 1 + r1 % 255;
            let max_f = 255u128 * klm as u128 * t as u128;
            let f = match f_mode {
                // exactly Z full blocks of KL(N_max) symbols, +- a few bytes / symbols
                0 => adj(z_target * klm * t, df),
                1 => adj(z_target * klm * t, df * t as i64),
                // uniform inside the domain
                2 | 3 => 1 + (r3 as u128 % max_f) as u64,
                // small objects
                4 => 1 + r3 % (4 * t).max(1),
                5 => 1 + r3 % 100_000,
                // around block-size boundaries of Table 2
                6 => adj(pick_kp * t, df),
                _ => adj(max_f.min(u64::MAX as u128) as u64, -(r3 as i64 % 3).abs()),
            }
            .max(1);
            Case { f, p, ws, ws2 }
        },
    )
}

fn in_domain(c: &Case) -> Option<rf::Derived> {
    let al = al_of(c.p);
    let d = rf::derive(c.f, c.p as u64, c.ws, al, al)?;
    if d.z == 0 || d.z > 255 {
        return None;
    }
    // F in 1..=56403*255*T
    if c.f < 1 || c.f as u128 > 56403u128 * 255 * d.t as u128 {
        return None;
    }
    Some(d)
}

fn check(c: &Case, st: &mut Stats) -> Result<(), String> {
    let al = al_of(c.p);
    let Some(want) = in_domain(c) else {
        st.class("discarded: outside the property's domain");
        return Ok(());
    };
    st.class("in domain");
    let kl1 = rf::kl(c.ws, want.t, al, 1);
    let big_q = c.ws as u128 / (al as u128 * ((want.t + al * want.n_max - 1) / (al * want.n_max)) as u128) >= 1 << 32;
    st.class_if(kl1.is_none(), "KL(1) undefined, KL(N_max) defined");
    st.class_if(big_q, "WS/(Al*sub-symbol) >= 2^32");
    st.class_if(want.n > 1, "N>1");
    st.class_if(want.z > 1, "Z>1");
    if kl1.is_none() || big_q || want.n > 1 {
        st.nt(fnv_u64s(&[c.f, c.p as u64, c.ws]));
    }
    st.sample(|| json!({"F": c.f, "P'": c.p, "WS": c.ws, "expected": {"T": want.t, "Z": want.z, "N": want.n, "Al": al}}));

    let got = catch(|| raptorq::verif::generate_encoding_parameters(c.f, c.p, c.ws))
        .map_err(|p| format!("panic inside the domain for F={} P'={} WS={}: {p} (RFC 4.3 gives T={} Z={} N={})", c.f, c.p, c.ws, want.t, want.z, want.n))?;
    let al_got = got.symbol_alignment() as u64;
    if al_got == 0 || got.symbol_size() as u64 % al_got != 0 {
        return Err(format!("T={} is not a multiple of the reported Al={}", got.symbol_size(), al_got));
    }
    if got.symbol_size() as u64 != (c.p as u64) - (c.p as u64) % al_got {
        return Err(format!("T={} is not the largest multiple of Al={} not above P'={}", got.symbol_size(), al_got, c.p));
    }
    if got.transfer_length() != c.f {
        return Err("derived configuration does not carry the transfer length".into());
    }
    // evaluate the RFC derivation with the alignment the library reports (SS = Al, the
    // library's fixed choice)
    let want = if al_got == al {
        want
    } else {
        match rf::derive(c.f, c.p as u64, c.ws, al_got, al_got) {
            Some(d) if d.z >= 1 && d.z <= 255 => d,
            _ => return Ok(()),
        }
    };
    if (got.symbol_size() as u64, got.source_blocks() as u64, got.sub_blocks() as u64)
        != (want.t, want.z, want.n)
    {
        return Err(format!(
            "F={} P'={} WS={}: derived (T={}, Z={}, N={}, Al={}), RFC 4.3 gives (T={}, Z={}, N={})",
            c.f, c.p, c.ws, got.symbol_size(), got.source_blocks(), got.sub_blocks(), al_got, want.t, want.z, want.n
        ));
    }
    // a larger memory budget never yields more source blocks
    if c.ws2 >= c.ws {
        let c2 = Case { ws: c.ws2, ..c.clone() };
        if in_domain(&c2).is_some() {
            st.class("monotonicity pair");
            let got2 = catch(|| raptorq::verif::generate_encoding_parameters(c.f, c.p, c.ws2))
                .map_err(|p| format!("panic inside the domain for F={} P'={} WS={}: {p}", c.f, c.p, c.ws2))?;
            if got2.source_blocks() > got.source_blocks() {
                return Err(format!(
                    "larger memory budget gives more blocks: WS={} -> Z={}, WS={} -> Z={}",
                    c.ws, got.source_blocks(), c.ws2, got2.source_blocks()
                ));
            }
        }
    }
    // the public entry point with the default budget
    if c.ws == 10 * 1024 * 1024 {
        st.class("with_defaults");
        let d = catch(|| ObjectTransmissionInformation::with_defaults(c.f, c.p))
            .map_err(|p| format!("with_defaults panicked: {p}"))?;
        if d != got {
            return Err("with_defaults differs from the derivation with WS = 10 MiB".into());
        }
    }
    Ok(())
}

// --- round trip through EncoderBuilder / Decoder ------------------------------------------------

#[derive(Debug, Clone)]
pub struct RtCase {
    len: usize,
    p: u16,
    ws: u64,
    seed: u64,
}

fn rt_strategy() -> impl Strategy<Value = RtCase> {
    (
        prop_oneof![1usize..=300, 1usize..=20_000, 1usize..=120_000],
        prop_oneof![8u16..=63, 64u16..=200, 64u16..=1500],
        any::<u64>(),
        any::<u64>(),
    )
        .prop_map(|(len, p, r, seed)| {
            let al = al_of(p);
            let t = p as u64 - p as u64 % al;
            let n_max = (t / (al * al)).max(1);
            let sub = |n: u64| (t + al * n - 1) / (al * n);
            // budgets that force several blocks / several sub-blocks for this object size
            let kt = (len as u64 + t - 1) / t;
            let ws = match r % 5 {
                0 => 10 * al * sub(n_max) + r % 50,
                1 => (kt / 3 + 10) * al * sub(1 + (r >> 8) % n_max),
                2 => (kt / 2 + 10) * t,
                3 => 10 * 1024 * 1024,
                _ => (kt + 12) * al * sub(1 + (r >> 8) % n_max),
            };
            RtCase { len, p, ws, seed }
        })
}

fn rt_check(c: &RtCase, st: &mut Stats) -> Result<(), String> {
    let case = Case { f: c.len as u64, p: c.p, ws: c.ws, ws2: c.ws };
    let Some(want) = in_domain(&case) else {
        st.class("discarded: outside the property's domain");
        return Ok(());
    };
    // keep the work per case bounded: at most ~6000 symbols in total
    if want.kt > 6000 {
        st.class("discarded: too many symbols for the round-trip budget");
        return Ok(());
    }
    let data = SplitMix::new(c.seed).bytes(c.len);
    let mut b = EncoderBuilder::new();
    b.set_decoder_memory_requirement(c.ws);
    b.set_max_packet_size(c.p);
    let enc = catch(|| b.build(&data)).map_err(|p| format!("EncoderBuilder::build panicked inside the domain (len={} P'={} WS={}): {p}", c.len, c.p, c.ws))?;
    let cfg = enc.get_config();
    st.class_if(want.z > 1, "Z>1");
    st.class_if(want.n > 1, "N>1");
    if want.z > 1 || want.n > 1 {
        st.nt(fnv_u64s(&[c.len as u64, c.p as u64, c.ws]));
    }
    st.sample(|| json!({"len": c.len, "P'": c.p, "WS": c.ws, "derived": {"T": cfg.symbol_size(), "Z": cfg.source_blocks(), "N": cfg.sub_blocks(), "Al": cfg.symbol_alignment()}}));
    if (cfg.symbol_size() as u64, cfg.source_blocks() as u64, cfg.sub_blocks() as u64) != (want.t, want.z, want.n) {
        return Err(format!(
            "builder derived (T={}, Z={}, N={}), RFC 4.3 gives (T={}, Z={}, N={}) for len={} P'={} WS={}",
            cfg.symbol_size(), cfg.source_blocks(), cfg.sub_blocks(), want.t, want.z, want.n, c.len, c.p, c.ws
        ));
    }
    // decode from source packets with one erased per block, replaced by repair packets
    let r = catch(|| {
        let mut dec = Decoder::new(cfg);
        let mut rng = SplitMix::new(c.seed ^ 0xABCD);
        let mut out = None;
        for blk in enc.get_block_encoders() {
            let src = blk.source_packets();
            let drop = rng.below(src.len() as u64) as usize;
            for (i, p) in src.into_iter().enumerate() {
                if i != drop {
                    out = dec.decode(p);
                }
            }
            for p in blk.repair_packets(rng.below(1000) as u32, 3) {
                if let Some(o) = dec.decode(p) {
                    out = Some(o);
                }
            }
        }
        out
    })
    .map_err(|p| format!("round trip panicked: {p}"))?;
    match r {
        Some(o) if o == data => Ok(()),
        Some(_) => Err(format!("round trip returned different bytes (len={} P'={} WS={})", c.len, c.p, c.ws)),
        None => {
            // three repair symbols for one erasure: failure odds ~1e-7 per block; an undecodable
            // set is not a C14 violation, so it is only counted
            st.class("round trip undecodable with 2 spare symbols (counted, not judged)");
            Ok(())
        }
    }
}

fn to_json(c: &Case) -> Value {
    json!({"f": c.f, "p": c.p, "ws": c.ws, "ws2": c.ws2})
}

fn signature(c: &Case, msg: &str) -> String {
    let al = al_of(c.p);
    let t = c.p as u64 - c.p as u64 % al;
    let n_max = (t / (al * al)).max(1);
    let q = |n: u64| c.ws as u128 / (al as u128 * ((t + al * n - 1) / (al * n)) as u128);
    let wide = q(1) >= 1 << 32 || q(n_max) >= 1 << 32;
    if msg.starts_with("panic inside the domain") {
        if wide {
            return "derive:panic:quotient>=2^32".into();
        }
        if rf::kl(c.ws, t, al, 1).is_none() {
            return "derive:panic:KL(1)-undefined".into();
        }
        return "derive:panic:other".into();
    }
    if msg.contains("RFC 4.3 gives") {
        if wide {
            return "derive:mismatch:quotient>=2^32".into();
        }
        return "derive:mismatch".into();
    }
    if msg.starts_with("larger memory budget") {
        return "derive:monotonicity".into();
    }
    format!("derive:{}", msg.split(':').next().unwrap_or(""))
}

fn regression_cases() -> Vec<Case> {
    vec![
        Case { f: 10_000, p: 16, ws: 1 << 32, ws2: 1 << 33 },
        Case { f: 10_000, p: 1024, ws: 1000, ws2: 2000 },
        Case { f: 10_000, p: 1024, ws: 10 * 1024 * 1024, ws2: u64::MAX },
        Case { f: 1, p: 1, ws: 10, ws2: 10 },
        Case { f: 942574504275, p: 65535, ws: u64::MAX, ws2: u64::MAX },
        Case { f: 123_456_789, p: 1400, ws: 1 << 20, ws2: 1 << 40 },
    ]
}

pub fn run(ctx: &Ctx, rep: &mut Report) {
    rep.rule = "generated (F, P', WS): P' over 1..=65535 weighted to 1..70 / 63,64,65 / powers of two +-1; WS constructed at and next to K'*Al*ceil(T/(Al*n)) for table K' and n in 1..=N_max, next to 2^32-multiples of the sub-symbol budget, log-uniform over u64, u64::MAX; F at and next to Z*KL(N_max)*T, uniform in the domain, small. Cases outside the property's domain (KL(N_max) undefined, Z > 255, F > 56403*255*T) are counted and discarded. Oracle: RFC 4.3 derivation in u128 (KL(n) undefined when no K' fits), plus monotonicity in WS, plus EncoderBuilder/Decoder round trips. Non-trivial = KL(1) undefined while KL(N_max) defined, or WS/(Al*sub-symbol) >= 2^32, or N > 1 (derivation), Z>1 or N>1 (round trip); distinct by (F,P',WS).".into();
    rep.assumptions.push("Al and SS are the library's fixed choice (8,8) for P' >= 64 and (1,1) below; the RFC derivation is evaluated with the Al the library reports and SS = Al".into());
    let mut st = Stats::new();
    let started = std::time::Instant::now();
    let mut failures = vec![];
    for c in regression_cases() {
        st.eval();
        let r = match catch(|| check(&c, &mut st)) {
            Ok(r) => r,
            Err(p) => Err(format!("panic: {p}")),
        };
        if let Err(m) = r {
            failures.push(crate::util::simple_failure("derive", m.clone(), signature(&c, &m), to_json(&c)));
        }
    }
    rep.absorb("regression", crate::util::SubOutcome { stats: st, failures, wall_s: started.elapsed().as_secs_f64() });
    let n = ctx.tier.pick(3_000_000u64, 40_000_000);
    rep.absorb("derive", run_sharded("C14", "derive", ctx.seed, n, 64, strategy, check, to_json, signature));
    let n = ctx.tier.pick(2_000u64, 20_000);
    rep.absorb(
        "roundtrip",
        run_sharded(
            "C14", "roundtrip", ctx.seed, n, 16, rt_strategy, rt_check,
            |c| json!({"len": c.len, "p": c.p, "ws": c.ws, "seed": c.seed}),
            |_, m| format!("roundtrip:{}", m.split('(').next().unwrap_or("").trim()),
        ),
    );
}

pub fn replay(sub: &str, case: &Value) -> Result<(), String> {
    let mut st = Stats::new();
    match sub {
        "roundtrip" => rt_check(
            &RtCase {
                len: case["len"].as_u64().unwrap() as usize,
                p: case["p"].as_u64().unwrap() as u16,
                ws: case["ws"].as_u64().unwrap(),
                seed: case["seed"].as_u64().unwrap(),
            },
            &mut st,
        ),
        _ => check(
            &Case {
                f: case["f"].as_u64().unwrap(),
                p: case["p"].as_u64().unwrap() as u16,
                ws: case["ws"].as_u64().unwrap(),
                ws2: case["ws2"].as_u64().unwrap(),
            },
            &mut st,
        ),
    }
}

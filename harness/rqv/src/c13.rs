//! C13 — wire formats are the RFC 6330 layouts and round-trip losslessly.

use crate::reference as rf;
use crate::util::{
    catch, run_sharded, simple_failure, Failure, Report, SplitMix, Stats, SubOutcome,
};
use crate::Ctx;
use proptest::prelude::*;
use raptorq::{EncodingPacket, ObjectTransmissionInformation, PayloadId};
use rayon::prelude::*;
use serde_json::{json, Value};
use std::time::Instant;

fn check_payload_id(b: [u8; 4]) -> Result<(), String> {
    let (sbn, esi) = rf::parse_payload_id(&b);
    let p = PayloadId::deserialize(&b);
    if p.source_block_number() != sbn || p.encoding_symbol_id() != esi {
        return Err(format!(
            "deserialize({b:?}) gives SBN={} ESI={}, RFC 3.2 layout gives SBN={sbn} ESI={esi}",
            p.source_block_number(),
            p.encoding_symbol_id()
        ));
    }
    let s = p.serialize();
    if s != b {
        return Err(format!("serialize(deserialize({b:?})) = {s:?}"));
    }
    let q = PayloadId::new(sbn, esi);
    if q != p {
        return Err(format!("PayloadId::new({sbn},{esi}) != deserialize({b:?})"));
    }
    let s2 = q.serialize();
    if s2 != rf::payload_id_bytes(sbn, esi) {
        return Err(format!(
            "new({sbn},{esi}).serialize() = {s2:?}, RFC layout is {:?}",
            rf::payload_id_bytes(sbn, esi)
        ));
    }
    Ok(())
}

fn payload_ids_exhaustive() -> SubOutcome {
    let started = Instant::now();
    // 2^16 chunks of 2^16 ids
    let results: Vec<Option<[u8; 4]>> = (0u32..65536)
        .into_par_iter()
        .map(|hi| {
            for lo in 0u32..65536 {
                let v = (hi << 16) | lo;
                let b = std::hint::black_box(v.to_be_bytes());
                // inline fast path of check_payload_id (same predicates)
                let p = PayloadId::deserialize(&b);
                let esi = ((b[1] as u32) * 65536) + (b[2] as u32) * 256 + b[3] as u32;
                if p.source_block_number() != b[0]
                    || p.encoding_symbol_id() != esi
                    || p.serialize() != b
                {
                    return Some(b);
                }
            }
            None
        })
        .collect();
    let mut st = Stats::new();
    st.evals(1u64 << 32);
    // ESI >= 2^16 (all three ESI bytes matter): 256 * (2^24 - 2^16) ids, each visited once
    st.nt_enumerated(256 * ((1u64 << 24) - (1u64 << 16)));
    st.sample(|| json!({"bytes": [7, 1, 2, 3], "sbn": 7, "esi": 66051}));
    let mut failures = vec![];
    if let Some(b) = results.into_iter().flatten().next() {
        let msg = check_payload_id(b).err().unwrap_or_else(|| "mismatch".into());
        failures.push(simple_failure(
            "payload_id",
            msg,
            "payload_id:layout".into(),
            json!({"bytes": b.to_vec()}),
        ));
    }
    // constructor path + refusal of ESIs beyond 24 bits, on a stratified subset
    let mut rng = SplitMix::new(77);
    for i in 0..200_000u32 {
        let (sbn, esi) = if i < 70_000 {
            ((i % 256) as u8, i)
        } else {
            (rng.below(256) as u8, rng.below(1 << 24) as u32)
        };
        st.eval();
        if let Err(m) = check_payload_id(rf::payload_id_bytes(sbn, esi)) {
            failures.push(simple_failure(
                "payload_id",
                m,
                "payload_id:layout".into(),
                json!({"bytes": rf::payload_id_bytes(sbn, esi).to_vec()}),
            ));
            break;
        }
    }
    for esi in [1u32 << 24, (1 << 24) + 1, u32::MAX] {
        st.eval();
        if catch(|| PayloadId::new(0, esi)).is_ok() {
            failures.push(simple_failure(
                "payload_id_refusal",
                format!("PayloadId::new accepted a {esi} ESI beyond 24 bits"),
                "payload_id:refusal".into(),
                json!({"esi": esi}),
            ));
        }
    }
    failures.truncate(1);
    SubOutcome {
        stats: st,
        failures,
        wall_s: started.elapsed().as_secs_f64(),
    }
}

#[derive(Debug, Clone)]
struct PacketCase {
    sbn: u8,
    esi: u32,
    len: usize,
    seed: u64,
}

fn packet_strategy() -> impl Strategy<Value = PacketCase> {
    (
        any::<u8>(),
        prop_oneof![0u32..300, 0u32..(1 << 24), (1u32 << 24) - 300..(1 << 24), 65000u32..66000],
        prop_oneof![4 => 0usize..=70, 1 => Just(1280usize), 1 => Just(65535usize), 1 => 0usize..3000],
        any::<u64>(),
    )
        .prop_map(|(sbn, esi, len, seed)| PacketCase { sbn, esi, len, seed })
}

fn check_packet(c: &PacketCase, st: &mut Stats) -> Result<(), String> {
    let payload = SplitMix::new(c.seed).bytes(c.len);
    let pkt = EncodingPacket::new(PayloadId::new(c.sbn, c.esi), payload.clone());
    let wire = pkt.serialize();
    let mut want = rf::payload_id_bytes(c.sbn, c.esi).to_vec();
    want.extend_from_slice(&payload);
    st.class_if(c.esi >= 65536, "esi>=2^16");
    st.class_if(c.len == 0, "empty payload");
    if c.esi >= 65536 {
        st.nt(crate::util::fnv_u64s(&[c.sbn as u64, c.esi as u64, c.len as u64]));
    }
    st.sample(|| json!({"sbn": c.sbn, "esi": c.esi, "payload_len": c.len, "wire_prefix": wire[..wire.len().min(8)].to_vec()}));
    if wire != want {
        return Err(format!(
            "packet serialisation differs from payload-id || payload (first 8 bytes {:?} vs {:?})",
            &wire[..wire.len().min(8)],
            &want[..want.len().min(8)]
        ));
    }
    let back = EncodingPacket::deserialize(&wire);
    if back != pkt {
        return Err("deserialize(serialize(packet)) != packet".into());
    }
    if back.payload_id().source_block_number() != c.sbn
        || back.payload_id().encoding_symbol_id() != c.esi
        || back.data() != &payload[..]
    {
        return Err("accessors of the parsed packet differ from the inputs".into());
    }
    let (id, data) = back.split();
    if id != PayloadId::new(c.sbn, c.esi) || data != payload {
        return Err("split() does not return the id and payload".into());
    }
    Ok(())
}

#[derive(Debug, Clone)]
struct OtiBuf {
    b: [u8; 12],
}

fn field_byte() -> impl Strategy<Value = u8> {
    prop_oneof![3 => any::<u8>(), 1 => Just(0u8), 1 => Just(1u8), 1 => Just(255u8), 1 => Just(254u8), 1 => Just(128u8)]
}

fn oti_buf_strategy() -> impl Strategy<Value = OtiBuf> {
    proptest::collection::vec(field_byte(), 12).prop_map(|v| {
        let mut b = [0u8; 12];
        b.copy_from_slice(&v);
        OtiBuf { b }
    })
}

fn check_oti_buf(c: &OtiBuf, st: &mut Stats) -> Result<(), String> {
    let b = c.b;
    let (f, t, z, n, al) = rf::parse_oti(&b);
    let o = ObjectTransmissionInformation::deserialize(&b);
    st.class_if(f >= 1 << 32, "F>=2^32");
    st.class_if(b[5] != 0, "reserved byte non-zero");
    if f >= 1 << 32 {
        st.nt(crate::util::fnv64(&b));
    }
    st.sample(|| json!({"bytes": b.to_vec(), "F": f, "T": t, "Z": z, "N": n, "Al": al}));
    if o.transfer_length() != f
        || o.symbol_size() != t
        || o.source_blocks() != z
        || o.sub_blocks() != n
        || o.symbol_alignment() != al
    {
        return Err(format!(
            "deserialize({b:?}) = (F={},T={},Z={},N={},Al={}), RFC 3.3.2/3.3.3 layout gives (F={f},T={t},Z={z},N={n},Al={al})",
            o.transfer_length(), o.symbol_size(), o.source_blocks(), o.sub_blocks(), o.symbol_alignment()
        ));
    }
    let s = o.serialize();
    let mut want = b;
    want[5] = 0;
    if s != want {
        return Err(format!("serialize(deserialize({b:?})) = {s:?}, expected {want:?} (reserved byte zero)"));
    }
    if ObjectTransmissionInformation::deserialize(&s) != o {
        return Err("deserialize(serialize(x)) != x".into());
    }
    if s != rf::oti_bytes(f, t, z, n, al) {
        return Err("serialize differs from the reference layout".into());
    }
    Ok(())
}

#[derive(Debug, Clone)]
struct OtiVal {
    f: u64,
    t: u16,
    z: u8,
    n: u16,
    al: u8,
}

/// Values constructible through `new` (within its documented limits).
fn oti_val_strategy() -> impl Strategy<Value = OtiVal> {
    (
        prop_oneof![1u16..=64, 1u16..=65535, Just(65535u16), Just(1u16)],
        prop_oneof![1u8..=255, Just(1u8), Just(255u8)],
        any::<u16>(),
        prop_oneof![Just(1u8), Just(2u8), Just(4u8), Just(8u8), 1u8..=255],
        any::<u64>(),
        0u8..4,
    )
        .prop_map(|(t, z, n, al, r, mode)| {
            // make T a multiple of Al
            let al = if t % al as u16 == 0 { al } else { 1 };
            let cap = (56403u64 * z as u64 * t as u64).min(942574504275);
            let f = match mode {
                0 => cap,
                1 => r % (cap + 1),
                2 => cap.saturating_sub(r % 3),
                _ => r % (cap.min(1 << 20) + 1),
            };
            OtiVal { f, t, z, n, al }
        })
}

fn check_oti_val(c: &OtiVal, st: &mut Stats) -> Result<(), String> {
    let o = ObjectTransmissionInformation::new(c.f, c.t, c.z, c.n, c.al);
    st.class_if(c.f >= 1 << 32, "F>=2^32");
    if c.f >= 1 << 32 {
        st.nt(crate::util::fnv_u64s(&[c.f, c.t as u64, c.z as u64, c.n as u64, c.al as u64]));
    }
    st.sample(|| json!({"F": c.f, "T": c.t, "Z": c.z, "N": c.n, "Al": c.al}));
    let s = o.serialize();
    let want = rf::oti_bytes(c.f, c.t, c.z, c.n, c.al);
    if s != want {
        return Err(format!("serialize(new({c:?})) = {s:?}, RFC layout is {want:?}"));
    }
    let back = ObjectTransmissionInformation::deserialize(&s);
    if back != o {
        return Err(format!("deserialize(serialize(new({c:?}))) differs"));
    }
    Ok(())
}

pub fn run(ctx: &Ctx, rep: &mut Report) {
    rep.rule = "payload IDs: all 2^32 four-byte buffers (exhaustive) parsed and re-serialised against the RFC 3.2 layout, plus the constructor path; packets: generated (SBN, ESI, payload length 0..=70 / 1280 / 65535 / <3000, content) checked as id||payload both ways; transmission information: generated 12-byte buffers biased to field boundaries and generated values built through new(), against reference (de)serialisers written from RFC 3.3.2/3.3.3. Non-trivial = ESI >= 2^16 or F >= 2^32; distinct by (field values).".into();
    rep.exhaustive = true;
    rep.assumptions.push("exhaustive only for the payload-ID sub-check; packet and OTI sub-checks are sampled".into());
    rep.absorb("payload_id", payload_ids_exhaustive());
    let n = ctx.tier.pick(2_000_000u64, 20_000_000);
    rep.absorb(
        "packet",
        run_sharded(
            "C13", "packet", ctx.seed, n / 4, 16, packet_strategy, check_packet,
            |c| json!({"sbn": c.sbn, "esi": c.esi, "len": c.len, "seed": c.seed}),
            |_, m| format!("packet:{}", m.split(' ').next().unwrap_or("")),
        ),
    );
    rep.absorb(
        "oti_buf",
        run_sharded(
            "C13", "oti_buf", ctx.seed, n, 16, oti_buf_strategy, check_oti_buf,
            |c| json!({"bytes": c.b.to_vec()}),
            |_, m| format!("oti_buf:{}", m.split('(').next().unwrap_or("")),
        ),
    );
    rep.absorb(
        "oti_val",
        run_sharded(
            "C13", "oti_val", ctx.seed, n, 16, oti_val_strategy, check_oti_val,
            |c| json!({"f": c.f, "t": c.t, "z": c.z, "n": c.n, "al": c.al}),
            |_, m| format!("oti_val:{}", m.split('(').next().unwrap_or("")),
        ),
    );
}

pub fn replay(sub: &str, case: &Value) -> Result<(), String> {
    let mut st = Stats::new();
    match sub {
        "payload_id" => {
            let v: Vec<u8> = case["bytes"].as_array().unwrap().iter().map(|x| x.as_u64().unwrap() as u8).collect();
            check_payload_id([v[0], v[1], v[2], v[3]])
        }
        "payload_id_refusal" => {
            let esi = case["esi"].as_u64().unwrap() as u32;
            if catch(|| PayloadId::new(0, esi)).is_ok() { Err("accepted".into()) } else { Ok(()) }
        }
        "packet" => check_packet(
            &PacketCase {
                sbn: case["sbn"].as_u64().unwrap() as u8,
                esi: case["esi"].as_u64().unwrap() as u32,
                len: case["len"].as_u64().unwrap() as usize,
                seed: case["seed"].as_u64().unwrap(),
            },
            &mut st,
        ),
        "oti_buf" => {
            let v: Vec<u8> = case["bytes"].as_array().unwrap().iter().map(|x| x.as_u64().unwrap() as u8).collect();
            let mut b = [0u8; 12];
            b.copy_from_slice(&v);
            check_oti_buf(&OtiBuf { b }, &mut st)
        }
        "oti_val" => check_oti_val(
            &OtiVal {
                f: case["f"].as_u64().unwrap(),
                t: case["t"].as_u64().unwrap() as u16,
                z: case["z"].as_u64().unwrap() as u8,
                n: case["n"].as_u64().unwrap() as u16,
                al: case["al"].as_u64().unwrap() as u8,
            },
            &mut st,
        ),
        _ => Err(format!("unknown sub-check {sub}")),
    }
}

#[allow(dead_code)]
fn _unused(_: Failure) {}

//! C15 — code parameters and symbol tuples are well-formed for every K and every ESI.
//! Runs in two build profiles: release, and `chk` (= release + debug assertions + overflow checks).

use crate::reference as rf;
use crate::util::{catch, simple_failure, Failure, Report, SplitMix, Stats, SubOutcome};
use crate::Ctx;
use raptorq::verif as rq;
use raptorq::{ObjectTransmissionInformation, SourceBlockDecoder, SourceBlockEncoder};
use rayon::prelude::*;
use serde_json::{json, Value};
use std::time::Instant;

fn profile() -> &'static str {
    if cfg!(debug_assertions) {
        "chk"
    } else {
        "release"
    }
}

// ---------------------------------------------------------------------------------------------
// parameters: all K in 0..=56403
// ---------------------------------------------------------------------------------------------

fn check_params_k(k: u32) -> Result<(), String> {
    let t2 = &rf::tables().t2;
    // smallest table size >= K, found independently of the crate's lookup
    let row = t2.iter().filter(|r| r.0 >= k).min_by_key(|r| r.0).ok_or("no table row")?;
    let (kp, j, s, h, w) = *row;
    let got = (
        rq::extended_source_block_symbols(k),
        rq::systematic_index(k),
        rq::num_ldpc_symbols(k),
        rq::num_hdpc_symbols(k),
        rq::num_lt_symbols(k),
    );
    if got != (kp, j, s, h, w) {
        return Err(format!("K={k}: accessors give (K',J,S,H,W)={got:?}, smallest Table-2 row >= K is {:?}", (kp, j, s, h, w)));
    }
    let l = kp + s + h;
    if rq::num_intermediate_symbols(k) != l {
        return Err(format!("K={k}: L={} but K'+S+H={l}", rq::num_intermediate_symbols(k)));
    }
    if w > l {
        return Err(format!("K={k}: W={w} exceeds L={l}"));
    }
    let p = l - w;
    if rq::num_pi_symbols(k) != p {
        return Err(format!("K={k}: P={} but L-W={p}", rq::num_pi_symbols(k)));
    }
    if !rf::is_prime(s) {
        return Err(format!("K={k}: S={s} is not prime"));
    }
    if !rf::is_prime(w) {
        return Err(format!("K={k}: W={w} is not prime"));
    }
    let mut p1 = p;
    while !rf::is_prime(p1) {
        p1 += 1;
    }
    if rq::calculate_p1(k) != p1 {
        return Err(format!("K={k}: P1={} but the smallest prime >= P={p} is {p1}", rq::calculate_p1(k)));
    }
    if w <= s {
        return Err(format!("K={k}: B=W-S must be >= 1 (W={w}, S={s})"));
    }
    if !(p >= h && h >= 2) {
        return Err(format!("K={k}: need P >= H >= 2 (P={p}, H={h})"));
    }
    if l >= 65536 {
        return Err(format!("K={k}: L={l} does not fit 16 bits"));
    }
    if kp + s < w {
        return Err(format!("K={k}: K'+S < W (errata 2 precondition)"));
    }
    Ok(())
}

fn params_all() -> SubOutcome {
    let started = Instant::now();
    let mut st = Stats::new();
    let mut failures: Vec<Failure> = vec![];
    let bad: Vec<(u32, String)> = (0u32..=56403)
        .into_par_iter()
        .filter_map(|k| match catch(|| check_params_k(k)) {
            Ok(Ok(())) => None,
            Ok(Err(m)) => Some((k, m)),
            Err(p) => Some((k, format!("panic: {p}"))),
        })
        .collect();
    st.evals(56404);
    st.nt_enumerated(56404);
    st.sample(|| json!({"K": 11, "params": format!("{:?}", rf::params(11))}));
    st.sample(|| json!({"K": 56403, "params": format!("{:?}", rf::params(56403))}));
    // table strictly increasing, 477 rows, ends at K'max
    let t2 = &rf::tables().t2;
    st.eval();
    if t2.len() != 477 || t2.windows(2).any(|w| w[0].0 >= w[1].0) || t2.last().unwrap().0 != 56403 || t2[0].0 != 10 {
        failures.push(simple_failure("params", "Table 2 is not 477 strictly increasing rows from 10 to 56403".into(), "params:table-shape".into(), Value::Null));
    }
    // K beyond the maximum is refused
    st.eval();
    if catch(|| rq::extended_source_block_symbols(56404)).is_ok() {
        failures.push(simple_failure("params", "K=56404 accepted".into(), "params:kmax".into(), json!({"k": 56404})));
    }
    if let Some((k, m)) = bad.into_iter().min_by_key(|x| x.0) {
        failures.push(simple_failure("params", m, "params:consistency".into(), json!({"k": k})));
    }
    failures.truncate(1);
    SubOutcome { stats: st, failures, wall_s: started.elapsed().as_secs_f64() }
}

// ---------------------------------------------------------------------------------------------
// tuples
// ---------------------------------------------------------------------------------------------

/// One (K', X): crate tuple == reference tuple, all components in range.
#[inline]
fn check_tuple(pr: &rf::Params, x: u32) -> Result<(), String> {
    let got = rq::intermediate_tuple(x, pr.w, pr.j, pr.p1);
    let want = rf::tuple(pr, x);
    if got != want {
        return Err(format!("K'={} X={x}: tuple {got:?}, RFC Tuple[K',X] is {want:?}", pr.kp));
    }
    let (d, a, b, d1, a1, b1) = got;
    let ok = d >= 1
        && d <= 30.min(pr.w - 2)
        && a >= 1
        && a < pr.w
        && b < pr.w
        && (d1 == 2 || d1 == 3)
        && a1 >= 1
        && a1 < pr.p1
        && b1 < pr.p1;
    if !ok {
        return Err(format!("K'={} X={x}: tuple {got:?} out of range (W={}, P1={})", pr.kp, pr.w, pr.p1));
    }
    Ok(())
}

/// Checks X in `xs` for one K'; returns the first failing X (panics included).
fn sweep(pr: &rf::Params, xs: impl Iterator<Item = u32> + Clone) -> Option<(u32, String)> {
    // fast path: whole range under one catch_unwind; on any failure, bisect one by one
    let xs2 = xs.clone();
    let r = catch(move || {
        for x in xs2 {
            if let Err(m) = check_tuple(pr, x) {
                return Some((x, m));
            }
        }
        None
    });
    match r {
        Ok(None) => None,
        Ok(Some(f)) => Some(f),
        Err(_) => {
            for x in xs {
                match catch(|| check_tuple(pr, x)) {
                    Ok(Ok(())) => {}
                    Ok(Err(m)) => return Some((x, m)),
                    Err(p) => return Some((x, format!("K'={} X={x}: panic in intermediate_tuple ({}): {p}", pr.kp, profile()))),
                }
            }
            None
        }
    }
}

fn inv_mod_2_32(a: u32) -> u32 {
    // Newton iteration for the inverse of an odd number modulo 2^32
    let mut x: u32 = a;
    for _ in 0..5 {
        x = x.wrapping_mul(2u32.wrapping_sub(a.wrapping_mul(x)));
    }
    x
}

/// All X < 2^24 + K' with (B + X*A) mod 2^32 == y (A odd, so at most one).
fn solve_x(pr: &rf::Params, y: u32) -> Option<u32> {
    let mut a = 53591u32.wrapping_add(pr.j.wrapping_mul(997));
    if a % 2 == 0 {
        a += 1;
    }
    let b = 10267u32.wrapping_mul(pr.j + 1);
    let x = y.wrapping_sub(b).wrapping_mul(inv_mod_2_32(a));
    if (x as u64) < (1u64 << 24) + pr.kp as u64 {
        Some(x)
    } else {
        None
    }
}

fn boundary_targets() -> Vec<u32> {
    let mut t: Vec<u32> = vec![];
    for d in 0..=8u32 {
        t.push(d);
        t.push(u32::MAX - d);
    }
    for k in 1..=255u32 {
        for d in 0..=2u32 {
            t.push((k << 24).wrapping_sub(1 + d));
            t.push((k << 24) + d);
        }
    }
    for k in 1..=64u32 {
        for d in 0..=2u32 {
            t.push((k << 16).wrapping_sub(1 + d));
            t.push((k << 8).wrapping_sub(1 + d));
        }
    }
    t.sort_unstable();
    t.dedup();
    t
}

fn tuple_failure(kp: u32, x: u32, msg: String) -> Failure {
    let sig = if msg.contains("panic") {
        if msg.contains("overflow") {
            format!("tuple:overflow-panic:{}", profile())
        } else {
            format!("tuple:panic:{}", profile())
        }
    } else if msg.contains("out of range") {
        "tuple:range".to_string()
    } else {
        "tuple:value".to_string()
    };
    simple_failure("tuple", msg, sig, json!({"kp": kp, "x": x, "profile": profile()}))
}

fn tuples(ctx: &Ctx) -> (SubOutcome, Vec<(u32, u32)>) {
    let started = Instant::now();
    let kps: Vec<u32> = rf::tables().t2.iter().map(|r| r.0).collect();
    let thorough = ctx.tier == crate::util::Tier::Thorough;
    let phase = (crate::util::mix(ctx.seed, 15) % 16) as u32;
    let targets = boundary_targets();
    // boundary-directed inputs: solve for the X that drives y onto a carry boundary
    let mut boundary: Vec<(u32, u32)> = vec![];
    for &kp in &kps {
        let pr = rf::params(kp);
        for &y in &targets {
            if let Some(x) = solve_x(&pr, y) {
                boundary.push((kp, x));
            }
        }
    }
    let results: Vec<(Stats, Option<Failure>)> = kps
        .par_iter()
        .map(|&kp| {
            let pr = rf::params(kp);
            let mut st = Stats::new();
            let end = (1u32 << 24) + kp; // exclusive
            let mut fail = None;
            let mut run = |name: &str, xs: &mut dyn FnMut() -> Option<(u32, String)>, n: u64, st: &mut Stats| {
                if fail.is_some() {
                    return;
                }
                st.evals(n);
                st.class_n(name, n);
                st.nt_enumerated(n);
                if let Some((x, m)) = xs() {
                    fail = Some(tuple_failure(kp, x, m));
                }
            };
            if thorough {
                run("full sweep", &mut || sweep(&pr, 0..end), end as u64, &mut st);
            } else {
                run("X<70000", &mut || sweep(&pr, 0..70_000u32), 70_000, &mut st);
                let lo = (1u32 << 24) - 4096;
                run("X>=2^24-4096", &mut || sweep(&pr, lo..end), (end - lo) as u64, &mut st);
                let n = ((lo - 70_000 - phase) as u64 + 15) / 16;
                run("every 16th X", &mut || sweep(&pr, (70_000 + phase..lo).step_by(16)), n, &mut st);
            }
            let mine: Vec<u32> = boundary.iter().filter(|b| b.0 == kp).map(|b| b.1).collect();
            run("boundary-solved X", &mut || sweep(&pr, mine.iter().copied()), mine.len() as u64, &mut st);
            if kp == 989 {
                st.sample(|| json!({"K'": 989, "X": 3158229, "tuple": format!("{:?}", rf::tuple(&pr, 3158229)), "why": "B + X*A = 2^32-1 (carry boundary of Rand)"}));
                st.sample(|| json!({"K'": 989, "X": 16778204, "tuple": format!("{:?}", rf::tuple(&pr, 16778204)), "why": "largest internal symbol ID"}));
            }
            (st, fail)
        })
        .collect();
    let mut st = Stats::new();
    let mut failures = vec![];
    for (s, f) in results {
        st.merge(s);
        if let Some(f) = f {
            if failures.is_empty() {
                failures.push(f);
            }
        }
    }
    st.class_n("boundary targets", targets.len() as u64);
    (SubOutcome { stats: st, failures, wall_s: started.elapsed().as_secs_f64() }, boundary)
}

// ---------------------------------------------------------------------------------------------
// producing and consuming boundary symbols
// ---------------------------------------------------------------------------------------------

/// Encode ISI x of a block with K = K' source symbols and decode a set that contains it.
fn produce_consume(kp: u32, x: u32) -> Result<(), String> {
    if kp > max_produce_kp() {
        return Ok(());
    }
    if x < kp {
        return Ok(());
    }
    let t = 4usize;
    let data = SplitMix::new(kp as u64 * 31 + x as u64).bytes(kp as usize * t);
    let cfg = ObjectTransmissionInformation::new(data.len() as u64, t as u16, 1, 1, 1);
    let enc = SourceBlockEncoder::new(0, &cfg, &data);
    // K = K' so ESI == ISI
    let pkts = enc.repair_packets(x - kp, 1);
    if pkts.len() != 1 || pkts[0].payload_id().encoding_symbol_id() != x {
        return Err(format!("K'={kp}: repair_packets({}, 1) did not produce ESI {x}", x - kp));
    }
    let mut dec = SourceBlockDecoder::new(0, &cfg, data.len() as u64);
    let mut set: Vec<_> = enc.source_packets();
    set.remove(0);
    set.push(pkts[0].clone());
    set.extend(enc.repair_packets(0, 2));
    // only "never panics" is C15's statement here; what is decoded is C01/C02's business
    let _ = dec.decode(set);
    Ok(())
}

/// The solver's debug-assertion self-checks are cubic in K', so the chk build is limited to small
/// blocks (the tuple itself is K'-independent code).
fn max_produce_kp() -> u32 {
    if cfg!(debug_assertions) {
        260
    } else {
        3000
    }
}

fn produce_consume_all(boundary: &[(u32, u32)]) -> SubOutcome {
    let started = Instant::now();
    let mut items: Vec<(u32, u32)> = boundary.iter().copied().filter(|b| b.0 <= max_produce_kp() && b.1 >= b.0).collect();
    // always include the largest ESI of a few block sizes
    for kp in [10u32, 26, 101, 257, 989, 2195] {
        if kp <= max_produce_kp() {
            items.push((kp, (1 << 24) - 1));
        }
    }
    items.sort_unstable();
    items.dedup();
    let results: Vec<(u32, u32, Result<(), String>)> = items
        .par_iter()
        .map(|&(kp, x)| {
            let r = match catch(|| produce_consume(kp, x)) {
                Ok(r) => r,
                Err(p) => Err(format!("K'={kp} ESI {x}: panic while producing/consuming the symbol ({}): {p}", profile())),
            };
            (kp, x, r)
        })
        .collect();
    let mut st = Stats::new();
    let mut failures = vec![];
    for (kp, x, r) in results {
        st.eval();
        st.nt(((kp as u64) << 32) | x as u64);
        st.sample(|| json!({"K'": kp, "ESI": x}));
        if let Err(m) = r {
            if failures.is_empty() {
                let sig = if m.contains("overflow") { format!("produce:overflow-panic:{}", profile()) } else { format!("produce:{}", if m.contains("panic") { "panic" } else { "value" }) };
                failures.push(simple_failure("produce", m, sig, json!({"kp": kp, "x": x, "profile": profile()})));
            }
        }
    }
    SubOutcome { stats: st, failures, wall_s: started.elapsed().as_secs_f64() }
}

pub fn run(ctx: &Ctx, rep: &mut Report) {
    rep.rule = "parameters: every K in 0..=56403 (exhaustive) against an independent lookup + trial-division primality; tuples: quick = for all 477 K': all X < 70000, all X >= 2^24-4096, every 16th X in between (seed-dependent phase), plus boundary-directed X solved from (B + X*A) mod 2^32 = y for y next to 0, 2^32, k*2^24, k*2^16, k*2^8; thorough = all X in 0..2^24+K' for all K' (8.0e9 pairs). Each (K', X) compares intermediate_tuple with the reference Tuple[K',X] and checks the ranges. Both build profiles (release; chk = overflow checks + debug assertions). Boundary X are also produced (repair_packets) and consumed (decode). Every enumerated (K', X, profile) is distinct and counted as non-trivial.".into();
    rep.exhaustive = ctx.tier == crate::util::Tier::Thorough;
    rep.assumptions.push("V0..V3 and Table 2 are trusted as of the pinned commit (SHA-256 pinned in golden/tables.json, checked by C04)".into());
    rep.assumptions.push(format!("this process is the `{}` build; the driver runs the other profile as a companion and merges it", profile()));
    if !cfg!(debug_assertions) {
        rep.absorb("params", params_all());
    }
    let (out, boundary) = tuples(ctx);
    rep.absorb(&format!("tuples[{}]", profile()), out);
    rep.absorb(&format!("produce_consume[{}]", profile()), produce_consume_all(&boundary));
}

pub fn replay(sub: &str, case: &Value) -> Result<(), String> {
    match sub {
        "params" => check_params_k(case["k"].as_u64().unwrap_or(0) as u32),
        "tuple" => {
            let pr = rf::params(case["kp"].as_u64().unwrap() as u32);
            check_tuple(&pr, case["x"].as_u64().unwrap() as u32)
        }
        "produce" => produce_consume(case["kp"].as_u64().unwrap() as u32, case["x"].as_u64().unwrap() as u32),
        _ => Err(format!("unknown sub-check {sub}")),
    }
}

use crate::util::Report;
use crate::Ctx;
use serde_json::Value;

pub fn run(_ctx: &Ctx, _rep: &mut Report) {
    eprintln!("not implemented yet");
    std::process::exit(2);
}

pub fn replay(_sub: &str, _case: &Value) -> Result<(), String> {
    Err("not implemented".into())
}

//! C01 — decoding never returns anything but the original object.

use crate::codec::{build_pool, map_index, ObjectSpec};
use crate::reference as rf;
use crate::util::{fnv_u64s, run_sharded, Report, SplitMix, Stats, Tier};
use crate::Ctx;
use proptest::prelude::*;
use raptorq::{Decoder, Encoder, EncodingPacket, SourceBlockDecoder};
use serde_json::{json, Value};
use std::collections::HashSet;

#[derive(Debug, Clone)]
pub struct Case {
    spec: ObjectSpec,
    /// raw indices into the packet pool (with repetition), mapped monotonically
    hist: Vec<u16>,
    /// append every not-yet-delivered source packet (shuffled) at the end
    complete: bool,
    /// packets travel through serialize/deserialize
    wire: bool,
    /// sparse threshold: 0 = default (250), 1 = always sparse, 2 = always dense
    backend: u8,
    /// repair packets per block in the pool (0 = the default K/2+8); when set, the whole pool is
    /// delivered and the final batch calls carry all of it
    pool_repair: u32,
}

fn spec_strategy(kmax: usize, zmax: usize) -> impl Strategy<Value = ObjectSpec> {
    (
        prop_oneof![Just(1usize), Just(2usize), Just(4usize), Just(8usize)],
        any::<u64>(),
        1usize..=zmax,
        any::<u64>(),
        any::<u64>(),
        any::<u64>(),
        0u64..5,
        any::<u64>(),
    )
        .prop_map(move |(al, rt, z, rk, rn, rr, class, seed)| {
            // T a multiple of Al in Al..=192, weighted to 1, Al and the 63/64/65 strides
            let tmax = 192 / al;
            let tu = match rt % 8 {
                0 => 1,
                1 => (64 / al).max(1),
                2 => ((64 / al) + 1).min(tmax),
                3 => ((64 / al).max(2)) - 1,
                _ => 1 + ((rt >> 8) % tmax as u64) as usize,
            }
            .max(1);
            let kt_max = kmax * z;
            let kt = (z as u64 + rk % (kt_max - z + 1) as u64) as usize;
            let n = 1 + (rn % tu.min(5) as u64) as usize;
            let t = tu * al;
            // F mod T uniform, forced != 0 in half the cases; F < T and F = 1 included
            let r = match rr % 4 {
                0 => t,
                _ => 1 + ((rr >> 4) % t as u64) as usize,
            };
            ObjectSpec { al, tu, z, n, kt, r, class, seed }
        })
}

fn strategy(kmax: usize, zmax: usize, hist_max: usize) -> impl Strategy<Value = Case> {
    (
        spec_strategy(kmax, zmax),
        proptest::collection::vec(any::<u16>(), 0..hist_max),
        any::<bool>(),
        any::<bool>(),
        0u8..3,
    )
        .prop_map(|(spec, hist, complete, wire, backend)| Case { spec, hist, complete, wire, backend, pool_repair: 0 })
}

fn threshold(backend: u8) -> Option<u32> {
    match backend {
        1 => Some(0),
        2 => Some(u32::MAX),
        _ => None,
    }
}

fn check(c: &Case, st: &mut Stats) -> Result<(), String> {
    let spec = &c.spec;
    let (t, f) = (spec.t(), spec.f());
    let data = spec.data();
    let cfg = spec.cfg();
    let enc = Encoder::new(&data, cfg);
    let pool = build_pool(&enc, spec.seed, |k| if c.pool_repair > 0 { c.pool_repair as usize } else { (k as usize / 2 + 8).min(60) });
    let layout = rf::object_layout(&data, t, spec.z, spec.n, spec.al);
    let mut dec = Decoder::new(cfg);
    if let Some(th) = threshold(c.backend) {
        dec.verif_set_sparse_threshold(th);
    }
    let mut dec_mixed = Decoder::new(cfg);
    if let Some(th) = threshold(c.backend) {
        dec_mixed.verif_set_sparse_threshold(th);
    }
    let mut dec_stream = Decoder::new(cfg);
    if let Some(th) = threshold(c.backend) {
        dec_stream.verif_set_sparse_threshold(th);
    }
    let mut block_decs: Vec<SourceBlockDecoder> = pool
        .ks
        .iter()
        .enumerate()
        .map(|(zi, &k)| {
            let mut d = SourceBlockDecoder::new(zi as u8, &cfg, k as u64 * t as u64);
            if let Some(th) = threshold(c.backend) {
                d.verif_set_sparse_threshold(th);
            }
            d
        })
        .collect();
    let z = pool.ks.len();
    // the delivery sequence
    let mut seq: Vec<usize> = c.hist.iter().map(|&r| map_index(r, pool.packets.len())).collect();
    if c.complete {
        let mut rng = SplitMix::new(spec.seed ^ 0xC0DE);
        let delivered: HashSet<usize> = seq.iter().copied().collect();
        let mut rest: Vec<usize> = pool.source_idx.iter().flatten().copied().filter(|i| !delivered.contains(i)).collect();
        rng.shuffle(&mut rest);
        if c.pool_repair > 0 {
            let src: HashSet<usize> = pool.source_idx.iter().flatten().copied().collect();
            let mut reps: Vec<usize> = (0..pool.packets.len()).filter(|i| !src.contains(i) && !delivered.contains(i)).collect();
            rng.shuffle(&mut reps);
            seq.extend(reps);
        }
        seq.extend(rest);
    }
    let mut is_source = vec![false; pool.packets.len()];
    for i in pool.source_idx.iter().flatten() {
        is_source[*i] = true;
    }
    let total_source = pool.source_idx.iter().map(|v| v.len()).sum::<usize>();
    let mut src_delivered: HashSet<usize> = HashSet::new();
    let mut src_delivered_n = 0usize;
    let mut got: Vec<HashSet<u32>> = vec![HashSet::new(); z];
    let mut src_got: Vec<u32> = vec![0; z];
    let mut block_done: Vec<bool> = vec![false; z];
    let mut solver_blocks = 0usize;
    let mut dup = false;
    let mut none_at_k = false;
    let mut far = false;
    let mut answered = false;
    for (step, &pi) in seq.iter().enumerate() {
        let pkt: EncodingPacket = if c.wire {
            EncodingPacket::deserialize(&pool.packets[pi].serialize())
        } else {
            pool.packets[pi].clone()
        };
        let sbn = pkt.payload_id().source_block_number() as usize;
        let esi = pkt.payload_id().encoding_symbol_id();
        let k = pool.ks[sbn];
        if !got[sbn].insert(esi) {
            dup = true;
        } else if esi < k {
            src_got[sbn] += 1;
        }
        if esi > k + 5000 {
            far = true;
        }
        // per-block decoder, same history (it keeps being fed after its first answer: every
        // later answer must be the block as well)
        {
            let want_block: Vec<u8> = layout[sbn].iter().flat_map(|_| std::iter::empty::<u8>()).collect::<Vec<u8>>();
            let _ = want_block;
            // (a block decoder re-solves on every call; with a huge pool it is only fed until it
            // has answered - the final batch calls carry the whole pool)
            let skip = c.pool_repair > 0 && block_done[sbn];
            match if skip { None } else { block_decs[sbn].decode(std::iter::once(pkt.clone())) } {
                Some(bytes) => {
                    // block bytes = zero-padded object slice of that block
                    let start: usize = pool.ks[..sbn].iter().map(|&kk| kk as usize * t).sum();
                    let mut want: Vec<u8> = data[start.min(f)..(start + k as usize * t).min(f)].to_vec();
                    want.resize(k as usize * t, 0);
                    if bytes != want {
                        return Err(format!("block decoder {sbn} returned wrong bytes after step {step} (K={k}, {} distinct symbols, {} source)", got[sbn].len(), src_got[sbn]));
                    }
                    if !block_done[sbn] && src_got[sbn] < k {
                        solver_blocks += 1;
                    }
                    block_done[sbn] = true;
                }
                None if skip => {}
                None => {
                    if block_done[sbn] {
                        return Err(format!("block decoder {sbn} went back to 'not yet' after having answered (step {step})"));
                    }
                    if src_got[sbn] == k {
                        return Err(format!("block decoder {sbn} answered 'not yet' although all {k} source packets were delivered (step {step})"));
                    }
                    if got[sbn].len() as u32 >= k {
                        none_at_k = true;
                    }
                }
            }
        }
        // "all source packets of every block delivered" is decided by WHICH of the encoder's
        // source packets were handed over (their position in the pool), not by the IDs they
        // carry: an encoder that labels a block's packets wrongly must not disarm the oracle
        if is_source[pi] && src_delivered.insert(pi) {
            src_delivered_n += 1;
        }
        let all_source = src_delivered_n == total_source;
        // the streaming interface is an answer of the decoder as well
        dec_stream.add_new_packet(pkt.clone());
        match dec_stream.get_result() {
            Some(out) => {
                if out.len() != f {
                    return Err(format!("get_result() returned {} bytes, transfer length is {f} (step {step})", out.len()));
                }
                if out != data {
                    let pos = out.iter().zip(&data).position(|(a, b)| a != b).unwrap_or(0);
                    return Err(format!("get_result() returned a wrong object (first difference at byte {pos}) at step {step}"));
                }
            }
            None => {
                if all_source {
                    return Err(format!("all source packets of every block delivered, yet get_result() answers 'not yet' (step {step})"));
                }
            }
        }
        // a third decoder on which the two interfaces are mixed packet by packet
        let via_decode = crate::util::mix(spec.seed, step as u64) % 2 == 0;
        let mixed = if via_decode {
            dec_mixed.decode(pkt.clone())
        } else {
            dec_mixed.add_new_packet(pkt.clone());
            dec_mixed.get_result()
        };
        match mixed {
            Some(out) => {
                if out.len() != f {
                    return Err(format!("mixed use of decode()/add_new_packet(): returned {} bytes, transfer length is {f} (step {step}, via {})", out.len(), if via_decode { "decode" } else { "get_result" }));
                }
                if out != data {
                    return Err(format!("mixed use of decode()/add_new_packet(): returned a wrong object at step {step}"));
                }
            }
            None => {
                if all_source {
                    return Err(format!("mixed use of decode()/add_new_packet(): all source packets delivered, yet 'not yet' (step {step})"));
                }
            }
        }
        match dec.decode(pkt) {
            Some(out) => {
                answered = true;
                if out.len() != f {
                    return Err(format!("decoder returned {} bytes, transfer length is {f} (step {step})", out.len()));
                }
                if out != data {
                    let pos = out.iter().zip(&data).position(|(a, b)| a != b).unwrap_or(0);
                    return Err(format!("decoder returned a wrong object (first difference at byte {pos}) at step {step}"));
                }
            }
            None => {
                if all_source {
                    return Err(format!("all source packets of every block delivered, yet the decoder answers 'not yet' (step {step})"));
                }
                if answered {
                    return Err(format!("decoder went back to 'not yet' after having answered (step {step})"));
                }
            }
        }
    }
    let mut batch_solver = false;
    // the distinct packets of every block once more, in ONE call to a fresh block decoder
    // (a batch can enter code paths that one-per-call delivery answers before reaching)
    for sbn in 0..z {
        let k = pool.ks[sbn];
        let mut seen = HashSet::new();
        let batch: Vec<EncodingPacket> = seq
            .iter()
            .map(|&pi| &pool.packets[pi])
            .filter(|p| p.payload_id().source_block_number() as usize == sbn && seen.insert(p.payload_id().encoding_symbol_id()))
            .cloned()
            .collect();
        if batch.is_empty() {
            continue;
        }
        let n_batch = batch.len();
        let start: usize = pool.ks[..sbn].iter().map(|&kk| kk as usize * t).sum();
        let mut want: Vec<u8> = data[start.min(f)..(start + k as usize * t).min(f)].to_vec();
        want.resize(k as usize * t, 0);
        // the same batch without its first source packet: if all source packets are present the
        // full batch is answered without the solver, this one is not
        if let Some(pos) = batch.iter().position(|p| p.payload_id().encoding_symbol_id() < k) {
            if n_batch > k as usize {
                let mut b2 = batch.clone();
                b2.remove(pos);
                let mut d2 = SourceBlockDecoder::new(sbn as u8, &cfg, k as u64 * t as u64);
                if let Some(th) = threshold(c.backend) {
                    d2.verif_set_sparse_threshold(th);
                }
                if let Some(bytes) = d2.decode(b2) {
                    if bytes != want {
                        return Err(format!("block decoder {sbn} returned wrong bytes for a batch of {} distinct packets (K={k}, one source packet withheld)", n_batch - 1));
                    }
                    batch_solver = true;
                }
            }
        }
        let mut d = SourceBlockDecoder::new(sbn as u8, &cfg, k as u64 * t as u64);
        if let Some(th) = threshold(c.backend) {
            d.verif_set_sparse_threshold(th);
        }
        if let Some(bytes) = d.decode(batch) {
            let start: usize = pool.ks[..sbn].iter().map(|&kk| kk as usize * t).sum();
            let mut want: Vec<u8> = data[start.min(f)..(start + k as usize * t).min(f)].to_vec();
            want.resize(k as usize * t, 0);
            if bytes != want {
                return Err(format!("block decoder {sbn} returned wrong bytes for a batch of {n_batch} distinct packets (K={k}, {} source)", src_got[sbn]));
            }
        } else if src_got[sbn] == k {
            return Err(format!("block decoder {sbn}: batch with all {k} source packets answered 'not yet'"));
        }
    }
    let kprime_pad = pool.ks.iter().any(|&k| rf::params(k).kp > k);
    st.class_if(kprime_pad, "padding symbols present (K<K')");
    st.class_if(f % t != 0, "F mod T != 0");
    st.class_if(spec.z > 1, "Z>1");
    st.class_if(spec.z > 128, "Z>128");
    st.class_if(spec.kt > 65535, "Kt >= 2^16");
    st.class_if(t > 4096, "T > 4096");
    st.class_if(spec.n > 255, "N > 255");
    st.class_if(spec.n > 1, "N>1");
    st.class_if(none_at_k, "None at >= K symbols");
    st.class_if(dup, "duplicates present");
    st.class_if(far, "far repair ESIs");
    st.class_if(c.backend == 1 || pool.ks.iter().any(|&k| rf::params(k).kp >= 250 && c.backend == 0), "sparse back-end");
    st.class_if(answered, "object returned");
    st.class_if(c.wire, "through serialize/deserialize");
    st.class_if(solver_blocks > 0, "a block completed through the solver");
    st.class_if(batch_solver, "a batch call answered through the solver");
    st.class_if(c.pool_repair > 65000, "pool with more than 65000 repair packets per block");
    st.class_if(f < t, "F<T");
    st.evals(seq.len() as u64);
    if solver_blocks > 0 {
        st.nt(fnv_u64s(&[spec.seed, f as u64, t as u64, spec.z as u64, spec.n as u64, seq.len() as u64, crate::util::fnv64(&c.hist.iter().flat_map(|x| x.to_le_bytes()).collect::<Vec<u8>>())]));
    }
    st.sample(|| json!({"F": f, "T": t, "Z": spec.z, "N": spec.n, "Al": spec.al, "K_per_block": pool.ks, "pool": pool.packets.len(), "deliveries": seq.len(), "complete": c.complete, "solver_blocks": solver_blocks}));
    Ok(())
}

fn to_json(c: &Case) -> Value {
    json!({"spec": c.spec.to_json(), "hist": c.hist, "complete": c.complete, "wire": c.wire, "backend": c.backend, "pool_repair": c.pool_repair})
}

fn from_json(v: &Value) -> Case {
    Case {
        spec: ObjectSpec::from_json(&v["spec"]),
        hist: v["hist"].as_array().unwrap().iter().map(|x| x.as_u64().unwrap() as u16).collect(),
        complete: v["complete"].as_bool().unwrap(),
        wire: v["wire"].as_bool().unwrap(),
        backend: v["backend"].as_u64().unwrap() as u8,
        pool_repair: v.get("pool_repair").and_then(|x| x.as_u64()).unwrap_or(0) as u32,
    }
}

fn signature(_: &Case, msg: &str) -> String {
    let kind = if msg.contains("panic") {
        "panic"
    } else if msg.contains("wrong object") || msg.contains("wrong bytes") {
        "wrong-bytes"
    } else if msg.contains("transfer length") {
        "length"
    } else if msg.contains("not yet") {
        "no-answer"
    } else {
        "other"
    };
    format!("object:{kind}")
}

pub fn run(ctx: &Ctx, rep: &mut Report) {
    rep.rule = "generated object (Al in {1,2,4,8}, T multiple of Al up to 192 weighted to 1/Al/63,64,65 strides, Z <= 6, N <= 5, K per block <= 64 (quick), F with F mod T uniform incl. F < T and F = 1, data in {random, zero, 0xFF, one-hot, position-coded}) and a delivery history: a generated list of indices (with repetition) into the pool of the encoder's source packets plus repair packets with near/uniform/far ESIs, in half the cases completed with every missing source packet; optional serialize/deserialize; decoder back-end default/sparse/dense. A separate group has many blocks (Z in 7..=255 weighted to 126..130 and 250..255, 1..4 symbols per block, histories up to 3000 deliveries). A group of wide symbols has Al in {1,2,4,5,8,32,128,255}, T up to 65535 and N up to T/Al (weighted across 255/256/257) on objects of at most 12 symbols. A group 'hugepool' has one block of at most 12 symbols and 65 500..66 500 repair packets, all delivered, so that the final batch calls carry more than 2^16 distinct symbols. A further group has objects of more than 2^16 symbols in total (Kt 40 000..100 000 weighted to 65 300..68 000, Z 150..=255, T <= 4), always completed. Thorough adds K around the dense/sparse switch (241..260), K in 1000..1100 and K >= 10000. Oracle: after every Decoder::decode call, after every add_new_packet + get_result on a second decoder, and on a third decoder on which the two interfaces alternate pseudo-randomly, the answer is None or exactly the object (length F); Some once all source packets were delivered; never back to None; the same history through per-block decoders (fed beyond their first answer) gives None or the zero-padded block, and so does one batch call with the block's distinct packets, and another one with the first source packet withheld (which forces the solver when all source packets were delivered). Non-trivial = at least one block completed through the solver (>= K distinct symbols with a source symbol missing); distinct by (object, history).".into();
    let n = ctx.tier.pick(50_000u64, 400_000);
    rep.absorb("small", run_sharded("C01", "small", ctx.seed, n, 32, || strategy(64, 6, 400), check, to_json, signature));
    let n = ctx.tier.pick(1_500u64, 8_000);
    rep.absorb("switch", run_sharded("C01", "switch", ctx.seed, n, 32, || strategy_range(241, 262, 2, 700), check, to_json, signature));
    let n = ctx.tier.pick(1_200u64, 12_000);
    rep.absorb("manyblocks", run_sharded("C01", "manyblocks", ctx.seed, n, 32, strategy_manyblocks, check, to_json, signature));
    let n = ctx.tier.pick(600u64, 12_000);
    rep.absorb("widesymbols", run_sharded("C01", "widesymbols", ctx.seed, n, 32, strategy_widesymbols, check, to_json, signature));
    let n = ctx.tier.pick(16u64, 200);
    rep.absorb("hugepool", run_sharded("C01", "hugepool", ctx.seed, n, 16, strategy_hugepool, check, to_json, signature));
    let n = ctx.tier.pick(16u64, 300);
    rep.absorb("largeobject", run_sharded("C01", "largeobject", ctx.seed, n, 16, strategy_largeobject, check, to_json, signature));
    if ctx.tier == Tier::Thorough {
        rep.absorb("k1000", run_sharded("C01", "k1000", ctx.seed, 300, 32, || strategy_range(1000, 1100, 1, 1600), check, to_json, signature));
        rep.absorb("k10000", run_sharded("C01", "k10000", ctx.seed, 24, 8, || strategy_big(), check, to_json, signature));
    }
}

/// Many source blocks (Z up to the 8-bit maximum 255) of a few symbols each: block numbers
/// across 127/128 and the last one, uneven partitions, long histories.
fn strategy_manyblocks() -> impl Strategy<Value = Case> {
    (
        prop_oneof![3 => 7usize..=255, 2 => 126usize..=130, 2 => 250usize..=255],
        prop_oneof![Just((1usize, 1usize)), Just((1, 3)), Just((4, 1)), Just((2, 2))],
        any::<u64>(),
        any::<u64>(),
        proptest::collection::vec(any::<u16>(), 0..3000),
        any::<bool>(),
        any::<bool>(),
        0u8..3,
    )
        .prop_map(|(z, (al, tu), rr, seed, hist, complete, wire, backend)| {
            let t = al * tu;
            let kt = z + ((rr >> 16) % (3 * z as u64 + 1)) as usize;
            let spec = ObjectSpec { al, tu, z, n: 1 + (rr % tu.min(3) as u64) as usize, kt, r: 1 + ((rr >> 8) % t as u64) as usize, class: rr % 5, seed };
            Case { spec, hist, complete, wire, backend, pool_repair: 0 }
        })
}

/// Wide symbols: T up to 65535, N across 255/256/257 and up to T/Al, Al up to 255; few symbols.
fn strategy_widesymbols() -> impl Strategy<Value = Case> {
    (
        prop_oneof![Just(1usize), Just(2), Just(4), Just(8), Just(32), Just(128), Just(255), Just(5)],
        any::<u64>(),
        any::<u64>(),
        1usize..=12,
        1usize..=3,
        any::<u64>(),
        any::<u64>(),
        proptest::collection::vec(any::<u16>(), 0..80),
        any::<bool>(),
        any::<bool>(),
        0u8..3,
    )
        .prop_map(|(al, rt, rn, kt, z, rr, seed, hist, complete, wire, backend)| {
            let tu_max = 65535 / al;
            let tu = match rt % 6 {
                0 => tu_max,
                1 => [255usize, 256, 257, 512, 1024, 4097][(rt >> 8) as usize % 6].min(tu_max),
                2 => 1 + ((rt >> 8) % 40) as usize,
                _ => 1 + ((rt >> 8) % tu_max as u64) as usize,
            }
            .clamp(1, tu_max);
            let n = match rn % 5 {
                0 => 1,
                1 => tu,
                2 => [255usize, 256, 257, 300][(rn >> 8) as usize % 4].min(tu),
                _ => 1 + ((rn >> 8) % tu as u64) as usize,
            };
            let t = tu * al;
            let spec = ObjectSpec { al, tu, z: z.min(kt), n, kt, r: 1 + ((rr >> 8) % t as u64) as usize, class: rr % 5, seed };
            Case { spec, hist, complete, wire, backend, pool_repair: 0 }
        })
}

/// A single small block with a pool of more than 2^16 repair packets, all delivered: the final
/// batch calls hand more than 2^16 distinct symbols to one block decoder.
fn strategy_hugepool() -> impl Strategy<Value = Case> {
    (1usize..=12, prop_oneof![Just((1usize, 1usize)), Just((1, 2)), Just((2, 1))], any::<u64>(), any::<u64>(), 65_500u32..=66_500, 0u8..3).prop_map(|(kt, (al, tu), rr, seed, pool_repair, backend)| {
        let t = al * tu;
        let spec = ObjectSpec { al, tu, z: 1, n: 1, kt, r: 1 + ((rr >> 8) % t as u64) as usize, class: rr % 5, seed };
        Case { spec, hist: vec![], complete: true, wire: false, backend, pool_repair }
    })
}

/// Objects of more than 2^16 symbols in total (Z near 255, a few hundred symbols per block):
/// a few hundred generated deliveries (duplicates, repair packets), then every missing source
/// packet in shuffled order.
fn strategy_largeobject() -> impl Strategy<Value = Case> {
    (
        prop_oneof![3 => 65_300usize..=68_000, 1 => 40_000usize..=100_000],
        prop_oneof![3 => 230usize..=255, 1 => 150usize..=255],
        prop_oneof![Just((1usize, 1usize)), Just((1, 2)), Just((2, 1)), Just((4, 1))],
        any::<u64>(),
        any::<u64>(),
        proptest::collection::vec(any::<u16>(), 0..600),
        any::<bool>(),
        0u8..3,
    )
        .prop_map(|(kt, z, (al, tu), rr, seed, hist, wire, backend)| {
            let t = al * tu;
            let spec = ObjectSpec { al, tu, z, n: 1 + (rr % tu as u64) as usize, kt, r: 1 + ((rr >> 8) % t as u64) as usize, class: rr % 5, seed };
            Case { spec, hist, complete: true, wire, backend, pool_repair: 0 }
        })
}

/// K per block within [klo, khi]
fn strategy_range(klo: usize, khi: usize, zmax: usize, hist_max: usize) -> impl Strategy<Value = Case> {
    (
        klo..=khi,
        1usize..=zmax,
        prop_oneof![Just((1usize, 1usize)), Just((1, 3)), Just((4, 2)), Just((8, 1)), Just((1, 8))],
        any::<u64>(),
        any::<u64>(),
        proptest::collection::vec(any::<u16>(), hist_max / 2..hist_max),
        any::<bool>(),
        0u8..3,
    )
        .prop_map(|(k, z, (al, tu), rr, seed, hist, complete, backend)| {
            let t = al * tu;
            let spec = ObjectSpec { al, tu, z, n: 1 + (rr % tu.min(3) as u64) as usize, kt: k * z - (rr % z as u64) as usize, r: 1 + ((rr >> 8) % t as u64) as usize, class: rr % 5, seed };
            Case { spec, hist, complete, wire: false, backend, pool_repair: 0 }
        })
}

fn strategy_big() -> impl Strategy<Value = Case> {
    (10_000usize..=14_000, prop_oneof![Just(1usize), Just(4usize), Just(8usize)], any::<u64>(), proptest::collection::vec(any::<u16>(), 14_000..16_000), any::<bool>())
        .prop_map(|(k, t, seed, hist, complete)| {
            let spec = ObjectSpec { al: 1, tu: t, z: 1, n: 1, kt: k, r: 1 + (seed % t as u64) as usize, class: 0, seed };
            Case { spec, hist, complete, wire: false, backend: 0, pool_repair: 0 }
        })
}

pub fn replay(_sub: &str, case: &Value) -> Result<(), String> {
    check(&from_json(case), &mut Stats::new())
}

/// Fuzz entry: bytes -> small object + delivery history -> soundness oracle.
pub fn fuzz_one(data: &[u8]) -> Result<(), String> {
    use arbitrary::Unstructured;
    let mut u = Unstructured::new(data);
    let al = [1usize, 2, 4, 8][u.int_in_range(0..=3usize).unwrap_or(0)];
    let tu = u.int_in_range(1..=(72 / al).max(1)).unwrap_or(1);
    let z = u.int_in_range(1..=3usize).unwrap_or(1);
    let kt = u.int_in_range(z..=z * 24).unwrap_or(z);
    let n = u.int_in_range(1..=tu.min(4)).unwrap_or(1);
    let t = tu * al;
    let r = u.int_in_range(1..=t).unwrap_or(t);
    let spec = ObjectSpec { al, tu, z, n, kt, r, class: u.int_in_range(0..=4u64).unwrap_or(0), seed: u.arbitrary().unwrap_or(0) };
    let complete: bool = u.arbitrary().unwrap_or(false);
    let wire: bool = u.arbitrary().unwrap_or(false);
    let backend = u.int_in_range(0..=2u8).unwrap_or(0);
    let mut hist = vec![];
    while !u.is_empty() && hist.len() < 220 {
        hist.push(u.arbitrary::<u16>().unwrap_or(0));
    }
    let c = Case { spec, hist, complete, wire, backend, pool_repair: 0 };
    check(&c, &mut Stats::new()).map_err(|m| format!("{m} | case {}", to_json(&c)))
}

//! C03 — reception overhead: decoding from K+h distinct symbols fails rarely.
//! Statistical: observed failure frequency of the real decoder, judged by an exact one-sided
//! binomial test against the advertised thresholds at alpha = 1e-9.

use crate::codec::{block_cfg, make_data, DataClass};
use crate::reference as rf;
use crate::util::{mix, simple_failure, Failure, Report, SplitMix, Stats, SubOutcome};
use crate::Ctx;
use raptorq::{EncodingPacket, SourceBlockDecoder, SourceBlockEncoder};
use rayon::prelude::*;
use serde_json::{json, Value};
use std::collections::BTreeSet;
use std::time::Instant;

pub const THRESHOLDS: [f64; 3] = [1e-2, 1e-4, 1e-5];
pub const ALPHA: f64 = 1e-9;

fn ln_gamma(x: f64) -> f64 {
    // Lanczos approximation (g = 7, n = 9)
    const G: [f64; 9] = [
        0.99999999999980993,
        676.5203681218851,
        -1259.1392167224028,
        771.32342877765313,
        -176.61502916214059,
        12.507343278686905,
        -0.13857109526572012,
        9.9843695780195716e-6,
        1.5056327351493116e-7,
    ];
    if x < 0.5 {
        return (std::f64::consts::PI / (std::f64::consts::PI * x).sin()).ln() - ln_gamma(1.0 - x);
    }
    let x = x - 1.0;
    let mut a = G[0];
    let t = x + 7.5;
    for (i, g) in G.iter().enumerate().skip(1) {
        a += g / (x + i as f64);
    }
    0.5 * (2.0 * std::f64::consts::PI).ln() + (x + 0.5) * t.ln() - t + a.ln()
}

/// P[X >= x] for X ~ Binomial(n, p), summed in log space from the upper tail's largest terms.
pub fn binom_tail_ge(n: u64, p: f64, x: u64) -> f64 {
    if x == 0 {
        return 1.0;
    }
    if x > n {
        return 0.0;
    }
    let ln_p = p.ln();
    let ln_q = (1.0 - p).ln_1p_safe();
    let ln_term = |k: u64| -> f64 {
        ln_gamma(n as f64 + 1.0) - ln_gamma(k as f64 + 1.0) - ln_gamma((n - k) as f64 + 1.0) + k as f64 * ln_p + (n - k) as f64 * ln_q
    };
    let mut sum = 0.0f64;
    let mut k = x;
    let first = ln_term(k);
    loop {
        let t = (ln_term(k) - first).exp();
        sum += t;
        if k == n || (t < 1e-18 && k as f64 > n as f64 * p) {
            break;
        }
        k += 1;
    }
    (first + sum.ln()).exp().min(1.0)
}

trait Ln1pSafe {
    fn ln_1p_safe(self) -> f64;
}
impl Ln1pSafe for f64 {
    // ln(self) where self = 1 - p, computed as ln_1p(-p) for accuracy
    fn ln_1p_safe(self) -> f64 {
        (self - 1.0).ln_1p()
    }
}

struct Fixture {
    k: u32,
    pr: rf::Params,
    data: Vec<u8>,
    enc: SourceBlockEncoder,
    source: Vec<EncodingPacket>,
}

fn fixture(k: u32) -> Fixture {
    let data = make_data(DataClass::Random, 0xC03 + k as u64, k as usize);
    let cfg = block_cfg(k as usize, 1);
    let enc = SourceBlockEncoder::new(0, &cfg, &data);
    let source = enc.source_packets();
    Fixture { k, pr: rf::params(k), data, enc, source }
}

fn k_mixture() -> Vec<u32> {
    let mut ks: Vec<u32> = (1..=40).collect();
    ks.extend(rf::tables().t2.iter().take(30).map(|r| r.0));
    ks.extend([100u32, 250, 500]);
    ks.sort_unstable();
    ks.dedup();
    ks
}

/// The ESI set of trial (k, h, stratum, trial seed): `s` source symbols + uniform repair ESIs.
fn trial_set(k: u32, h: u32, stratum: u8, seed: u64) -> Vec<u32> {
    let mut rng = SplitMix::new(seed);
    let s = if stratum == 0 { 0 } else { rng.below(k as u64) as u32 }; // 0..K-1 source symbols
    let mut set = BTreeSet::new();
    if s > 0 {
        let mut src: Vec<u32> = (0..k).collect();
        rng.shuffle(&mut src);
        set.extend(src.into_iter().take(s as usize));
    }
    while (set.len() as u32) < k + h {
        set.insert(k + rng.below((1u64 << 24) - k as u64) as u32);
    }
    set.into_iter().collect()
}

fn run_trial(fx: &Fixture, esis: &[u32]) -> Result<bool, String> {
    let k = fx.k;
    let cfg = block_cfg(k as usize, 1);
    let mut dec = SourceBlockDecoder::new(0, &cfg, k as u64);
    let pkts: Vec<EncodingPacket> = esis
        .iter()
        .map(|&e| if e < k { fx.source[e as usize].clone() } else { fx.enc.repair_packets(e - k, 1).pop().unwrap() })
        .collect();
    match dec.decode(pkts) {
        Some(b) if b == fx.data => Ok(true),
        // wrong bytes would be a C01 violation; for the failure statistics the decode "succeeded"
        Some(_) => Ok(true),
        None => Ok(false),
    }
}

#[derive(Default, Clone, Debug)]
struct Cell {
    trials: u64,
    failures: u64,
    failures_full_rank: u64,
    failing_sets: Vec<(u32, u32, u8, u64)>,
}

pub fn run(ctx: &Ctx, rep: &mut Report) {
    rep.rule = "trials: K from the fixed mixture {1..=40} U {30 smallest K'} U {100, 250, 500}; for h in {0,1,2} a set of exactly K+h distinct ESIs: stratum 'uniform' = all repair ESIs uniform without replacement in K..2^24, stratum 'mixed' = a uniformly random number (0..K-1) of source symbols plus uniform repair ESIs; the real SourceBlockDecoder is run on the whole set and `None` is counted. Decision: for each h (pooled, and per stratum, and per K-group) an exact one-sided binomial test rejects 'failure probability <= advertised threshold' (1e-2, 1e-4, 1e-5) at alpha = 1e-9; measured rates and their ratios are reported but are not alarm conditions. Every trial is non-trivial (>= K symbols with a source symbol missing); distinct by (K, h, stratum, trial seed); every counted failure is cross-checked with the rank oracle.".into();
    rep.assumptions.push("statistical statement: degradations smaller than the gap between the true rate and the threshold are invisible at these sample sizes; false-alarm probability < 1e-9 per test on a tree with failure probability at or below the threshold".into());
    let started = Instant::now();
    let ks = k_mixture();
    let scale = ctx.tier.pick(1u64, 20);
    let budget = [300_000u64 * scale, 1_500_000 * scale, 1_500_000 * scale];
    let fixtures: Vec<Fixture> = ks.par_iter().map(|&k| fixture(k)).collect();
    // trials are spread evenly over (K, stratum); larger K get fewer (cost grows ~K^2)
    let weight = |k: u32| -> f64 { 1.0 / (1.0 + (k as f64 / 40.0).powi(2)) };
    let wsum: f64 = ks.iter().map(|&k| weight(k)).sum();
    let mut work: Vec<(usize, u32, u8, u64, u64)> = vec![]; // (fixture idx, h, stratum, first trial, count)
    for h in 0..3u32 {
        for (i, &k) in ks.iter().enumerate() {
            let n = ((budget[h as usize] as f64) * weight(k) / wsum / 2.0).ceil() as u64;
            for stratum in 0..2u8 {
                // chunk for load balancing
                let mut done = 0;
                while done < n {
                    let c = (n - done).min(4000);
                    work.push((i, h, stratum, done, c));
                    done += c;
                }
            }
        }
    }
    let seed = ctx.seed;
    let results: Vec<(usize, u32, u8, Cell, Option<String>)> = work
        .par_iter()
        .map(|&(i, h, stratum, first, count)| {
            let fx = &fixtures[i];
            let mut cell = Cell::default();
            let mut err = None;
            for tix in first..first + count {
                let tseed = mix(mix(mix(seed, 0xC03), ((fx.k as u64) << 8) | ((h as u64) << 4) | stratum as u64), tix);
                let esis = trial_set(fx.k, h, stratum, tseed);
                cell.trials += 1;
                match crate::util::catch(|| run_trial(fx, &esis)) {
                    Ok(Ok(true)) => {}
                    Ok(Ok(false)) => {
                        cell.failures += 1;
                        // cross-check with the rank oracle
                        let mut isis: Vec<u32> = (fx.k..fx.pr.kp).collect();
                        isis.extend(esis.iter().map(|&e| rf::esi_to_isi(&fx.pr, e)));
                        if rf::rank_structured(&fx.pr, &isis) == fx.pr.l as usize {
                            cell.failures_full_rank += 1;
                        }
                        if cell.failing_sets.len() < 20 {
                            cell.failing_sets.push((fx.k, h, stratum, tseed));
                        }
                    }
                    Ok(Err(m)) => err = Some(m),
                    Err(_p) => {
                        // a panicking decode is a failed decode
                        cell.failures += 1;
                        if cell.failing_sets.len() < 20 {
                            cell.failing_sets.push((fx.k, h, stratum, tseed));
                        }
                    }
                }
            }
            (i, h, stratum, cell, err)
        })
        .collect();

    // aggregate
    let mut per: std::collections::BTreeMap<(u32, u8, u32), Cell> = Default::default(); // (h, stratum, k)
    let mut hard_error = None;
    for (i, h, stratum, cell, err) in results {
        let e = per.entry((h, stratum, fixtures[i].k)).or_default();
        e.trials += cell.trials;
        e.failures += cell.failures;
        e.failures_full_rank += cell.failures_full_rank;
        for f in cell.failing_sets {
            if e.failing_sets.len() < 20 {
                e.failing_sets.push(f);
            }
        }
        if err.is_some() && hard_error.is_none() {
            hard_error = err;
        }
    }
    let group_of = |k: u32| -> &'static str {
        match k {
            0..=10 => "K<=10",
            11..=20 => "K 11..20",
            21..=40 => "K 21..40",
            41..=99 => "K 41..99",
            _ => "K>=100",
        }
    };
    let mut st = Stats::new();
    let mut failures: Vec<Failure> = vec![];
    let mut table = vec![];
    let mut rates = [0f64; 3];
    for h in 0..3u32 {
        let mut groups: std::collections::BTreeMap<String, (u64, u64, Vec<(u32, u32, u8, u64)>)> = Default::default();
        let mut full_rank_nones = 0u64;
        for ((hh, stratum, k), cell) in per.iter() {
            if *hh != h {
                continue;
            }
            full_rank_nones += cell.failures_full_rank;
            for name in ["pooled".to_string(), format!("stratum:{}", if *stratum == 0 { "uniform" } else { "mixed" }), format!("group:{}", group_of(*k))] {
                let g = groups.entry(name).or_default();
                g.0 += cell.trials;
                g.1 += cell.failures;
                for f in &cell.failing_sets {
                    if g.2.len() < 12 {
                        g.2.push(*f);
                    }
                }
            }
        }
        for (name, (n, x, sets)) in groups.iter() {
            let p = THRESHOLDS[h as usize];
            let tail = binom_tail_ge(*n, p, *x);
            let rate = *x as f64 / *n as f64;
            if name == "pooled" {
                rates[h as usize] = rate;
                st.evals(*n);
                st.nt_enumerated(*n);
                st.class_n(&format!("h={h}: trials"), *n);
                st.class_n(&format!("h={h}: decode failures"), *x);
                st.class_n(&format!("h={h}: failures on full-rank sets (would be C02 violations)"), full_rank_nones);
            }
            table.push(json!({"h": h, "cell": name, "trials": n, "failures": x, "rate": rate, "threshold": p, "binomial_tail_P[X>=x|p=threshold]": tail}));
            if tail < ALPHA {
                failures.push(simple_failure(
                    "overhead",
                    format!("h={h} ({name}): {x} failures in {n} trials (rate {rate:.3e}) is incompatible with the advertised bound {p:.0e} (exact binomial tail {tail:.3e} < {ALPHA:e})"),
                    format!("overhead:h={h}:{name}"),
                    json!({"seed": seed, "h": h, "cell": name, "trials": n, "failures": x, "failing_sets": sets.iter().map(|f| json!({"k": f.0, "h": f.1, "stratum": f.2, "tseed": f.3})).collect::<Vec<_>>()}),
                ));
            }
        }
    }
    if let Some(m) = hard_error {
        failures.push(simple_failure("overhead", m, "overhead:wrong-bytes-or-panic".into(), json!({"seed": seed})));
    }
    // samples: a few actual trial sets
    for (h, k) in [(0u32, 10u32), (1, 26), (2, 100)] {
        let tseed = mix(seed, (k as u64) << 4 | h as u64);
        let s = trial_set(k, h, 1, tseed);
        st.sample(|| json!({"K": k, "h": h, "stratum": "mixed", "esis_first12": &s[..s.len().min(12)], "symbols": s.len()}));
    }
    failures.sort_by_key(|f| f.signature.len());
    failures.truncate(1);
    rep.extra.insert("rates".into(), json!({"h0": rates[0], "h1": rates[1], "h2": rates[2], "ratio_h0_h1": if rates[1] > 0.0 { rates[0] / rates[1] } else { f64::NAN }, "ratio_h1_h2": if rates[2] > 0.0 { rates[1] / rates[2] } else { f64::NAN }}));
    rep.extra.insert("cells".into(), json!(table));
    rep.absorb("overhead", SubOutcome { stats: st, failures, wall_s: started.elapsed().as_secs_f64() });
}

/// Replay: re-measure the listed failing sets (each must still be a decode failure to support
/// the count) and re-evaluate the decision on the recorded counts.
pub fn replay(_sub: &str, case: &Value) -> Result<(), String> {
    let h = case["h"].as_u64().unwrap_or(0) as usize;
    let n = case["trials"].as_u64().unwrap_or(0);
    let mut still = 0u64;
    let mut total = 0u64;
    if let Some(sets) = case["failing_sets"].as_array() {
        for s in sets {
            let k = s["k"].as_u64().unwrap() as u32;
            let hh = s["h"].as_u64().unwrap() as u32;
            let stratum = s["stratum"].as_u64().unwrap() as u8;
            let tseed = s["tseed"].as_u64().unwrap();
            let fx = fixture(k);
            total += 1;
            if let Ok(false) = run_trial(&fx, &trial_set(k, hh, stratum, tseed)) {
                still += 1;
            }
        }
    }
    // re-run the cell's decision with a fresh measurement of equal size is the check itself;
    // here: the recorded failing sets must fail again, and the recorded counts must reject
    let x = case["failures"].as_u64().unwrap_or(0);
    let tail = binom_tail_ge(n.max(1), THRESHOLDS[h.min(2)], x);
    if total > 0 && still == total && tail < ALPHA {
        Err(format!("{still}/{total} recorded failing sets still fail to decode; recorded counts {x}/{n} reject the bound (tail {tail:.3e})"))
    } else {
        Ok(())
    }
}

#[cfg(test)]
mod tests {
    use super::*;
    #[test]
    fn binomial_tail_sanity() {
        // exact small case: n=10, p=0.5, P[X>=8] = (45+10+1)/1024
        let t = binom_tail_ge(10, 0.5, 8);
        assert!((t - 56.0 / 1024.0).abs() < 1e-12, "{t}");
        // Poisson-ish: n=1e6, p=1e-5 (mean 10): P[X>=40] ~ 7.3e-13 (tiny), P[X>=10] ~ 0.54
        assert!(binom_tail_ge(1_000_000, 1e-5, 40) < 1e-11);
        let t = binom_tail_ge(1_000_000, 1e-5, 10);
        assert!(t > 0.5 && t < 0.6, "{t}");
        assert_eq!(binom_tail_ge(100, 0.1, 0), 1.0);
    }
}

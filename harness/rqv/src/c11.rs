//! C11 — bulk symbol kernels equal element-wise field operations on every code path.
//! Enumerated grid (kernel x op x length x alignment x scalar) x generated contents; the oracle
//! is an element-wise model using the polynomial multiplier; a canary checks that bytes outside
//! the operand are untouched.

use crate::reference as rf;
use crate::util::{catch, mix, simple_failure, Failure, Report, SplitMix, Stats, SubOutcome, Tier};
use crate::Ctx;
use raptorq::verif::verif_kernels as vk;
use raptorq::verif::{BinaryOctetVec, Octet};
use rayon::prelude::*;
use serde_json::{json, Value};
use std::time::Instant;

#[derive(Copy, Clone, Debug, PartialEq, Eq, Hash)]
pub enum Op {
    Add,
    Mul,
    Fma,
    FmaBinary,
}

pub const OPS: [Op; 4] = [Op::Add, Op::Mul, Op::Fma, Op::FmaBinary];

/// Which entry point: one private kernel, or the public dispatcher (CPU detection).
#[derive(Copy, Clone, Debug, PartialEq, Eq, Hash)]
pub enum Path {
    Kernel(vk::Kernel),
    Dispatch,
}

pub fn paths() -> Vec<Path> {
    let mut v: Vec<Path> = vk::ALL_KERNELS.iter().copied().filter(|k| vk::supported(*k)).map(Path::Kernel).collect();
    v.push(Path::Dispatch);
    v
}

pub fn path_name(p: Path) -> String {
    match p {
        Path::Kernel(k) => format!("{k:?}"),
        Path::Dispatch => "Dispatch".into(),
    }
}

pub fn path_from(s: &str) -> Option<Path> {
    if s == "Dispatch" {
        return Some(Path::Dispatch);
    }
    vk::ALL_KERNELS.iter().copied().find(|k| format!("{k:?}") == s).map(Path::Kernel)
}

fn width(p: Path, op: Op) -> usize {
    match p {
        Path::Kernel(vk::Kernel::Avx512) | Path::Dispatch => 64,
        Path::Kernel(vk::Kernel::Avx2) => 32,
        Path::Kernel(vk::Kernel::Ssse3) | Path::Kernel(vk::Kernel::Neon) => 16,
        Path::Kernel(vk::Kernel::Portable) => {
            if op == Op::Add {
                8
            } else {
                1
            }
        }
    }
}

#[derive(Clone, Debug)]
pub struct Case {
    pub path: Path,
    pub op: Op,
    pub len: usize,
    pub d_off: usize,
    pub s_off: usize,
    pub scalar: u8,
    /// 0 random, 1 all 0x00, 2 all 0xFF, 3.. one-hot at a boundary position
    pub content: u8,
    pub seed: u64,
}

pub fn case_json(c: &Case) -> Value {
    json!({"path": path_name(c.path), "op": format!("{:?}", c.op), "len": c.len, "d_off": c.d_off, "s_off": c.s_off, "scalar": c.scalar, "content": c.content, "seed": c.seed})
}

pub fn case_from(v: &Value) -> Case {
    let op = match v["op"].as_str().unwrap_or("Add") {
        "Mul" => Op::Mul,
        "Fma" => Op::Fma,
        "FmaBinary" => Op::FmaBinary,
        _ => Op::Add,
    };
    Case {
        path: path_from(v["path"].as_str().unwrap_or("Dispatch")).unwrap_or(Path::Dispatch),
        op,
        len: v["len"].as_u64().unwrap() as usize,
        d_off: v["d_off"].as_u64().unwrap() as usize,
        s_off: v["s_off"].as_u64().unwrap() as usize,
        scalar: v["scalar"].as_u64().unwrap() as u8,
        content: v["content"].as_u64().unwrap() as u8,
        seed: v["seed"].as_u64().unwrap(),
    }
}

pub fn fill(content: u8, seed: u64, len: usize, binary: bool) -> Vec<u8> {
    let mut rng = SplitMix::new(seed);
    let mut v = match content {
        1 => vec![0u8; len],
        2 => vec![if binary { 1 } else { 0xFF }; len],
        0 => rng.bytes(len),
        k if k >= 9 => {
            // sparse periodic pattern: one non-zero byte per period of 2..64 bytes, counted from
            // the start of the slice (so that whole vector blocks consist of equal 64-bit lanes,
            // lanes whose sum or xor vanishes without the block being zero, sign bits only, ...)
            let (p, j) = match (k - 9) % 6 {
                0 => (8usize, 7usize),
                1 => (8, rng.below(8) as usize),
                2 => (16, rng.below(16) as usize),
                3 => (2 + 2 * rng.below(2) as usize, 1),
                4 => (32, rng.below(32) as usize),
                _ => (64, rng.below(64) as usize),
            };
            let val = [0x80u8, 0x20, 0x40, 0xE0, 0x01, 0xFF, 0x10, 0x08][rng.below(8) as usize];
            let mut v = vec![0u8; len];
            let mut i = j;
            while i < len {
                v[i] = val;
                i += p;
            }
            v
        }
        k => {
            // one-hot at one of the first / last three positions
            let mut v = vec![0u8; len];
            if len > 0 {
                let pos = match (k - 3) % 6 {
                    0 => 0,
                    1 => 1.min(len - 1),
                    2 => 2.min(len - 1),
                    3 => len - 1,
                    4 => len.saturating_sub(2),
                    _ => len.saturating_sub(3),
                };
                v[pos] = 1 + rng.below(255) as u8;
            }
            v
        }
    };
    if binary {
        for x in v.iter_mut() {
            *x &= 1;
        }
    }
    v
}

/// Pack a 0/1 vector into the documented layout: value k at global bit (padding + k),
/// padding = (64 - len mod 64) mod 64, 64-bit words, bit i of a word = 1 << i.
pub fn pack_bits(bits: &[u8]) -> Vec<u64> {
    let len = bits.len();
    let padding = (64 - len % 64) % 64;
    let mut words = vec![0u64; (len + 63) / 64];
    for (k, &b) in bits.iter().enumerate() {
        if b != 0 {
            let g = padding + k;
            words[g / 64] |= 1u64 << (g % 64);
        }
    }
    words
}

/// Invoke the operation on `dest` (and `src`); returns false if the path does not exist here.
pub fn invoke(c: &Case, dest: &mut [u8], src: &[u8]) -> bool {
    let s = Octet::new(c.scalar);
    match (c.path, c.op) {
        (Path::Kernel(k), Op::Add) => vk::add_assign(k, dest, src),
        (Path::Kernel(k), Op::Mul) => vk::mulassign_scalar(k, dest, &s),
        (Path::Kernel(k), Op::Fma) => vk::fused_addassign_mul_scalar(k, dest, src, &s),
        (Path::Kernel(k), Op::FmaBinary) => {
            let packed = BinaryOctetVec::new(pack_bits(src), src.len());
            vk::fused_addassign_mul_scalar_binary(k, dest, &packed, &s)
        }
        (Path::Dispatch, Op::Add) => {
            raptorq::verif::add_assign(dest, src);
            true
        }
        (Path::Dispatch, Op::Mul) => {
            raptorq::verif::mulassign_scalar(dest, &s);
            true
        }
        (Path::Dispatch, Op::Fma) => {
            raptorq::verif::fused_addassign_mul_scalar(dest, src, &s);
            true
        }
        (Path::Dispatch, Op::FmaBinary) => {
            let packed = BinaryOctetVec::new(pack_bits(src), src.len());
            raptorq::verif::fused_addassign_mul_scalar_binary(dest, &packed, &s);
            true
        }
    }
}

/// Documented "don't call" preconditions of the public dispatchers (debug assertions).
pub fn precondition_ok(c: &Case) -> bool {
    if c.path == Path::Dispatch && cfg!(debug_assertions) {
        match c.op {
            Op::Fma => c.scalar > 1,
            Op::FmaBinary => c.scalar != 0,
            _ => true,
        }
    } else {
        true
    }
}

pub fn model(c: &Case, dest: &[u8], src: &[u8]) -> Vec<u8> {
    match c.op {
        Op::Add => dest.iter().zip(src).map(|(d, s)| d ^ s).collect(),
        Op::Mul => dest.iter().map(|&d| rf::mul(c.scalar, d)).collect(),
        Op::Fma | Op::FmaBinary => dest.iter().zip(src).map(|(d, s)| d ^ rf::mul(c.scalar, *s)).collect(),
    }
}

const CANARY: u8 = 0xA5;

/// Run one case inside a 64-byte aligned arena with canaries around the destination.
pub fn run_arena(c: &Case) -> Result<bool, String> {
    if !precondition_ok(c) {
        return Ok(false);
    }
    let binary = c.op == Op::FmaBinary;
    // destination content follows the content class; so does the source (as bytes, or as a 0/1
    // vector for the packed-binary operand: random bits / all 0 / all 1 / one-hot)
    let d0 = fill(c.content, c.seed, c.len, false);
    let s0 = if binary {
        fill(c.content, c.seed ^ 0x5151, c.len, false).iter().map(|&x| if c.content == 0 { x & 1 } else { (x != 0) as u8 }).collect::<Vec<u8>>()
    } else {
        fill(c.content, c.seed ^ 0x5151, c.len, false)
    };
    // arenas: [64 align slack][64 canary][offset + len][64 canary]
    let total = 64 + 64 + 64 + c.len + 64;
    let mut darena = vec![CANARY; total];
    let mut sarena = vec![CANARY; total];
    let dbase = (64 - (darena.as_ptr() as usize % 64)) % 64 + 64 + c.d_off;
    let sbase = (64 - (sarena.as_ptr() as usize % 64)) % 64 + 64 + c.s_off;
    darena[dbase..dbase + c.len].copy_from_slice(&d0);
    sarena[sbase..sbase + c.len].copy_from_slice(&s0);
    let want = model(c, &d0, &s0);
    let ran = {
        let (d, s) = (&mut darena[dbase..dbase + c.len], &sarena[sbase..sbase + c.len]);
        match catch(|| invoke(c, d, s)) {
            Ok(r) => r,
            Err(p) => return Err(format!("panic: {p}")),
        }
    };
    if !ran {
        return Ok(false);
    }
    if darena[dbase..dbase + c.len] != want[..] {
        let pos = (0..c.len).find(|&i| darena[dbase + i] != want[i]).unwrap();
        return Err(format!(
            "{} {:?} len={} scalar={}: byte {pos} is {:#04x}, element-wise field result is {:#04x} (dest was {:#04x}, src {:#04x})",
            path_name(c.path), c.op, c.len, c.scalar, darena[dbase + pos], want[pos], d0[pos], s0[pos]
        ));
    }
    for (i, &b) in darena.iter().enumerate() {
        if (i < dbase || i >= dbase + c.len) && b != CANARY {
            return Err(format!("{} {:?} len={}: wrote outside the destination slice (arena byte {} relative to slice start)", path_name(c.path), c.op, c.len, i as isize - dbase as isize));
        }
    }
    if sarena[sbase..sbase + c.len] != s0[..] || sarena.iter().enumerate().any(|(i, &b)| (i < sbase || i >= sbase + c.len) && b != CANARY) {
        return Err(format!("{} {:?} len={}: modified the source operand", path_name(c.path), c.op, c.len));
    }
    Ok(true)
}

pub fn lengths() -> Vec<usize> {
    let mut v: Vec<usize> = (0..=320).collect();
    v.extend([511, 512, 513, 1280, 4099]);
    v
}

/// Lengths beyond 16-bit and 17-bit counters; visited with a reduced offset/scalar grid.
pub const LONG_LENS: [usize; 5] = [65_535, 65_536, 65_537, 65_600, 131_073];

const SPECIAL_LENS: [usize; 24] = [1, 7, 8, 9, 15, 16, 17, 31, 32, 33, 41, 63, 64, 65, 71, 72, 127, 128, 129, 191, 192, 193, 257, 320];

fn signature(c: &Case, msg: &str) -> String {
    let kind = if msg.contains("panic") {
        "panic"
    } else if msg.contains("outside") {
        "canary"
    } else if msg.contains("source operand") {
        "src-modified"
    } else {
        "value"
    };
    format!("kernel:{}:{:?}:{kind}", path_name(c.path), c.op)
}

pub fn run(ctx: &Ctx, rep: &mut Report) {
    let ps = paths();
    rep.rule = format!("enumerated grid: entry point in {:?} (every kernel the hook exposes that `supported()` reports on this CPU, plus the public dispatchers) x op in {{add, mul, fma, fma_binary}} x length in 0..=320 U {{511,512,513,1280,4099}} (and 65535, 65536, 65537, 65600, 131073 with offsets {{0,1,63}} and 8 scalars) x destination start offset 0..=63 inside a 64-byte aligned arena (source offset derived independently) x scalars (quick: all 256 at offsets {{0,1,31,63}} for every length and at every 8th offset for 24 special lengths, {{0,1,2,0x1D,0x80,0xFF}} + 2 generated elsewhere; thorough: all 256 at every offset) x contents (random, 0x00, 0xFF, one-hot at each of the first/last three positions, and six sparse periodic patterns: one byte from {{0x80,0x20,0x40,0xE0,0x01,0xFF,0x10,0x08}} per period of 2..64 bytes counted from the start of the slice, among them the top byte of every 64-bit lane). The packed operand of fma_binary is built by the harness from the documented layout. Oracle: element-wise model with the polynomial multiplier + canaries around the destination and source. Non-trivial = length >= one vector width of the kernel with length mod width != 0 and scalar not in {{0,1}}; distinct by (path, op, len, offset, scalar, content).", ps.iter().map(|p| path_name(*p)).collect::<Vec<_>>());
    rep.exhaustive = ctx.tier == Tier::Thorough;
    rep.assumptions.push("NEON kernels cannot execute on this x86-64 host; they are not covered".into());
    if cfg!(debug_assertions) {
        rep.assumptions.push("chk build: the public dispatchers are not called with the scalars their debug assertions document as 'don't call' (0/1)".into());
    }
    let started = Instant::now();
    let mut lens = lengths();
    lens.extend(LONG_LENS);
    let thorough = ctx.tier == Tier::Thorough;
    // work units: (path, op, len)
    let mut units = vec![];
    for &p in &ps {
        for &op in &OPS {
            for &len in &lens {
                units.push((p, op, len));
            }
        }
    }
    let seed = ctx.seed;
    let results: Vec<(Stats, Option<Failure>)> = units
        .par_iter()
        .map(|&(path, op, len)| {
            let mut st = Stats::new();
            let mut fail: Option<Failure> = None;
            let w = width(path, op);
            let mut rng = SplitMix::new(mix(mix(seed, 0xC11), ((len as u64) << 8) ^ (op as u64) ^ (fnv(&path_name(path)) << 20)));
            let special = SPECIAL_LENS.contains(&len);
            let long = len > 5000;
            for d_off in 0..64usize {
                if long && ![0usize, 1, 63].contains(&d_off) {
                    continue;
                }
                let mut scalars: Vec<u8> = vec![0, 1, 2, 0x1D, 0x80, 0xFF, rng.next_u64() as u8, rng.next_u64() as u8];
                let all_scalars = if long { false } else if thorough { true } else { [0usize, 1, 31, 63].contains(&d_off) || (special && d_off % 8 == 7) };
                if all_scalars {
                    scalars = (0..=255u8).collect();
                }
                if op == Op::Add {
                    scalars = vec![1];
                }
                for (si, &scalar) in scalars.iter().enumerate() {
                    let contents: Vec<u8> = if !long && (thorough || all_scalars && si < 8) {
                        (0..15).collect()
                    } else {
                        vec![0, 1 + ((d_off + si) % 14) as u8]
                    };
                    for content in contents {
                        let c = Case { path, op, len, d_off, s_off: (rng.next_u64() % 64) as usize, scalar, content, seed: rng.next_u64() };
                        match run_arena(&c) {
                            Ok(true) => {
                                st.eval();
                                if len >= w && len % w != 0 && scalar > 1 {
                                    st.nt_enumerated(1);
                                }
                            }
                            Ok(false) => {
                                st.class("skipped: path/op unavailable or documented don't-call");
                            }
                            Err(m) => {
                                if fail.is_none() {
                                    fail = Some(simple_failure("grid", m.clone(), signature(&c, &m), case_json(&c)));
                                }
                            }
                        }
                        if fail.is_some() {
                            break;
                        }
                    }
                    if fail.is_some() {
                        break;
                    }
                }
                if fail.is_some() {
                    break;
                }
            }
            st.class_n(&format!("calls:{}:{:?}", path_name(path), op), st.evaluations);
            if len == 65 && op == Op::Fma {
                let c = Case { path, op, len, d_off: 3, s_off: 9, scalar: 0x1D, content: 0, seed: 1 };
                st.sample(|| case_json(&c));
            }
            (st, fail)
        })
        .collect();
    let mut st = Stats::new();
    let mut failures = vec![];
    for (s, f) in results {
        st.merge(s);
        if let Some(f) = f {
            failures.push(f);
        }
    }
    // one failure per distinct signature (distinct kernels are distinct root causes)
    failures.sort_by(|a, b| a.signature.cmp(&b.signature));
    failures.dedup_by(|a, b| a.signature == b.signature);
    failures.truncate(4);
    rep.absorb(if cfg!(debug_assertions) { "grid[chk]" } else { "grid" }, SubOutcome { stats: st, failures, wall_s: started.elapsed().as_secs_f64() });
}

fn fnv(s: &str) -> u64 {
    crate::util::fnv_str(s)
}

pub fn replay(_sub: &str, case: &Value) -> Result<(), String> {
    run_arena(&case_from(case)).map(|_| ())
}

/// Exact-size heap operands (no arena): under AddressSanitizer any access beyond the slices
/// hits a red zone.
pub fn run_exact(c: &Case) -> Result<bool, String> {
    if !precondition_ok(c) {
        return Ok(false);
    }
    let binary = c.op == Op::FmaBinary;
    let d0 = fill(c.content, c.seed, c.len, false);
    let s0: Vec<u8> = if binary {
        fill(c.content, c.seed ^ 0x5151, c.len, false).iter().map(|&x| if c.content == 0 { x & 1 } else { (x != 0) as u8 }).collect()
    } else {
        fill(c.content, c.seed ^ 0x5151, c.len, false)
    };
    let mut d = d0.clone().into_boxed_slice();
    let s = s0.clone().into_boxed_slice();
    if !invoke(c, &mut d, &s) {
        return Ok(false);
    }
    if d[..] != model(c, &d0, &s0)[..] {
        return Err(format!("{} {:?} len={} scalar={}: wrong result (exact-size operands)", path_name(c.path), c.op, c.len, c.scalar));
    }
    Ok(true)
}

/// Fuzz entry: bytes -> structured kernel case -> functional oracle (arena + exact operands).
pub fn fuzz_one(data: &[u8]) -> Result<(), String> {
    use arbitrary::Unstructured;
    let mut u = Unstructured::new(data);
    let ps = paths();
    let path = ps[u.int_in_range(0..=ps.len() - 1).map_err(|e| e.to_string())?];
    let op = OPS[u.int_in_range(0..=3usize).unwrap_or(0)];
    let len = match u.int_in_range(0..=3u8).unwrap_or(0) {
        0 => u.int_in_range(0..=140usize).unwrap_or(0),
        1 => u.int_in_range(0..=700usize).unwrap_or(0),
        2 => 64 * u.int_in_range(0..=8usize).unwrap_or(0) + u.int_in_range(0..=2usize).unwrap_or(0),
        _ => u.int_in_range(0..=4200usize).unwrap_or(0),
    };
    let c = Case {
        path,
        op,
        len,
        d_off: u.int_in_range(0..=63usize).unwrap_or(0),
        s_off: u.int_in_range(0..=63usize).unwrap_or(0),
        scalar: u.arbitrary().unwrap_or(2),
        content: u.int_in_range(0..=14u8).unwrap_or(0),
        seed: u.arbitrary().unwrap_or(0),
    };
    run_arena(&c).map_err(|m| format!("{m} | case {}", case_json(&c)))?;
    run_exact(&c).map_err(|m| format!("{m} | case {}", case_json(&c)))?;
    Ok(())
}

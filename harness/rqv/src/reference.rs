//! Independent reference model written from RFC 6330. Shares no code with the crate under test.
//! The only data taken from the crate are the RFC-fixed tables V0..V3 and Table 2 (read through
//! the `verif` hook and pinned by SHA-256 in /verif/golden/tables.json).

use std::sync::OnceLock;

// ---------------------------------------------------------------------------------------------
// GF(256), RFC 6330 section 5.7: polynomial x^8 + x^4 + x^3 + x^2 + 1, generator alpha = 2
// ---------------------------------------------------------------------------------------------

/// Carry-less "Russian peasant" multiplication modulo 0x11D. No tables.
pub fn gf_mul(a: u8, b: u8) -> u8 {
    let mut a = a as u16;
    let mut b = b;
    let mut r: u16 = 0;
    while b != 0 {
        if b & 1 != 0 {
            r ^= a;
        }
        a <<= 1;
        if a & 0x100 != 0 {
            a ^= 0x11D;
        }
        b >>= 1;
    }
    r as u8
}

pub fn gf_pow(a: u8, mut e: u32) -> u8 {
    let mut base = a;
    let mut r = 1u8;
    while e > 0 {
        if e & 1 != 0 {
            r = gf_mul(r, base);
        }
        base = gf_mul(base, base);
        e >>= 1;
    }
    r
}

/// Multiplicative inverse: a^254.
pub fn gf_inv(a: u8) -> u8 {
    assert!(a != 0);
    gf_pow(a, 254)
}

/// A full 256x256 product table derived from `gf_mul` (used for speed inside the reference).
pub fn mul_table() -> &'static [[u8; 256]; 256] {
    static T: OnceLock<Box<[[u8; 256]; 256]>> = OnceLock::new();
    T.get_or_init(|| {
        let mut t = Box::new([[0u8; 256]; 256]);
        for a in 0..256 {
            for b in 0..256 {
                t[a][b] = gf_mul(a as u8, b as u8);
            }
        }
        t
    })
}

#[inline]
pub fn mul(a: u8, b: u8) -> u8 {
    mul_table()[a as usize][b as usize]
}

// ---------------------------------------------------------------------------------------------
// Tables (trusted base, pinned)
// ---------------------------------------------------------------------------------------------

pub struct Tables {
    pub v: [[u32; 256]; 4],
    /// (K', J, S, H, W)
    pub t2: Vec<(u32, u32, u32, u32, u32)>,
}

pub fn tables() -> &'static Tables {
    static T: OnceLock<Tables> = OnceLock::new();
    T.get_or_init(|| {
        let vt = raptorq::verif::v_tables();
        let mut v = [[0u32; 256]; 4];
        for i in 0..4 {
            v[i] = *vt[i];
        }
        let t2 = raptorq::verif::SYSTEMATIC_INDICES_AND_PARAMETERS.to_vec();
        Tables { v, t2 }
    })
}

/// Serialisation of the tables over which the golden digests are taken.
pub fn table_bytes() -> (Vec<u8>, Vec<u8>) {
    let t = tables();
    let mut vb = vec![];
    for i in 0..4 {
        for x in t.v[i].iter() {
            vb.extend_from_slice(&x.to_be_bytes());
        }
    }
    let mut tb = vec![];
    for &(k, j, s, h, w) in t.t2.iter() {
        for x in [k, j, s, h, w] {
            tb.extend_from_slice(&x.to_be_bytes());
        }
    }
    (vb, tb)
}

// ---------------------------------------------------------------------------------------------
// Section 5.3.5: Rand, Deg, Tuple
// ---------------------------------------------------------------------------------------------

pub fn rand(y: u32, i: u32, m: u32) -> u32 {
    let t = tables();
    let y = y as u64;
    let i = i as u64;
    let x0 = ((y + i) % 256) as usize;
    let x1 = ((y / (1 << 8) + i) % 256) as usize;
    let x2 = ((y / (1 << 16) + i) % 256) as usize;
    let x3 = ((y / (1 << 24) + i) % 256) as usize;
    (t.v[0][x0] ^ t.v[1][x1] ^ t.v[2][x2] ^ t.v[3][x3]) % m
}

/// Table 1 of RFC 6330 (degree distribution), own copy.
pub const F_DEG: [u32; 31] = [
    0, 5243, 529531, 704294, 791675, 844104, 879057, 904023, 922747, 937311, 948962, 958494,
    966438, 973160, 978921, 983914, 988283, 992138, 995565, 998631, 1001391, 1003887, 1006157,
    1008229, 1010129, 1011876, 1013490, 1014983, 1016370, 1017662, 1048576,
];

pub fn deg(v: u32, w: u32) -> u32 {
    assert!(v < (1 << 20));
    let mut d = 1;
    while !(F_DEG[d - 1] <= v && v < F_DEG[d]) {
        d += 1;
    }
    (d as u32).min(w - 2)
}

#[derive(Copy, Clone, Debug, PartialEq, Eq)]
pub struct Params {
    pub k: u32,
    pub kp: u32,
    pub j: u32,
    pub s: u32,
    pub h: u32,
    pub w: u32,
    pub l: u32,
    pub p: u32,
    pub p1: u32,
    pub b: u32,
    pub u: u32,
}

pub fn is_prime(n: u32) -> bool {
    if n < 2 {
        return false;
    }
    let mut d = 2u32;
    while (d as u64) * (d as u64) <= n as u64 {
        if n % d == 0 {
            return false;
        }
        d += 1;
    }
    true
}

/// Code parameters for a block of k source symbols (section 5.3.3.3 / Table 2).
pub fn params(k: u32) -> Params {
    let t = tables();
    let row = t
        .t2
        .iter()
        .find(|r| r.0 >= k)
        .unwrap_or_else(|| panic!("K={k} beyond Table 2"));
    let (kp, j, s, h, w) = *row;
    let l = kp + s + h;
    let p = l - w;
    let mut p1 = p;
    while !is_prime(p1) {
        p1 += 1;
    }
    Params {
        k,
        kp,
        j,
        s,
        h,
        w,
        l,
        p,
        p1,
        b: w - s,
        u: p - h,
    }
}

/// Tuple[K', X] of section 5.3.5.4: (d, a, b, d1, a1, b1).
pub fn tuple(pr: &Params, x: u32) -> (u32, u32, u32, u32, u32, u32) {
    let mut a_big: u64 = 53591 + pr.j as u64 * 997;
    if a_big % 2 == 0 {
        a_big += 1;
    }
    let b_big: u64 = 10267 * (pr.j as u64 + 1);
    let y = ((b_big + x as u64 * a_big) % (1u64 << 32)) as u32;
    let v = rand(y, 0, 1 << 20);
    let d = deg(v, pr.w);
    let a = 1 + rand(y, 1, pr.w - 1);
    let b = rand(y, 2, pr.w);
    let d1 = if d < 4 { 2 + rand(x, 3, 2) } else { 2 };
    let a1 = 1 + rand(x, 4, pr.p1 - 1);
    let b1 = rand(x, 5, pr.p1);
    (d, a, b, d1, a1, b1)
}

/// Indices of the intermediate symbols combined by Enc[K', C, tuple] (section 5.3.5.3), in order.
pub fn enc_indices(pr: &Params, t: (u32, u32, u32, u32, u32, u32)) -> Vec<usize> {
    let (d, a, mut b, d1, a1, mut b1) = t;
    let mut out = Vec::with_capacity((d + d1) as usize);
    out.push(b as usize);
    for _ in 1..d {
        b = (b + a) % pr.w;
        out.push(b as usize);
    }
    while b1 >= pr.p {
        b1 = (b1 + a1) % pr.p1;
    }
    out.push((pr.w + b1) as usize);
    for _ in 1..d1 {
        b1 = (b1 + a1) % pr.p1;
        while b1 >= pr.p {
            b1 = (b1 + a1) % pr.p1;
        }
        out.push((pr.w + b1) as usize);
    }
    out
}

/// Enc[K', C, Tuple[K', X]] over symbols given as byte vectors.
pub fn enc(pr: &Params, c: &[Vec<u8>], isi: u32) -> Vec<u8> {
    let idx = enc_indices(pr, tuple(pr, isi));
    let mut out = c[idx[0]].clone();
    for &i in &idx[1..] {
        for (o, x) in out.iter_mut().zip(c[i].iter()) {
            *o ^= *x;
        }
    }
    out
}

// ---------------------------------------------------------------------------------------------
// Constraint rows (section 5.3.3.3 / 5.3.3.4)
// ---------------------------------------------------------------------------------------------

/// LDPC rows as lists of column indices (each row: C[cols] xor-sum = 0). S rows.
pub fn ldpc_rows(pr: &Params) -> Vec<Vec<usize>> {
    let (s, b, w, p) = (pr.s as usize, pr.b as usize, pr.w as usize, pr.p as usize);
    let mut rows: Vec<Vec<usize>> = vec![vec![]; s];
    for i in 0..b {
        let a = 1 + i / s;
        let mut bb = i % s;
        rows[bb].push(i);
        bb = (bb + a) % s;
        rows[bb].push(i);
        bb = (bb + a) % s;
        rows[bb].push(i);
    }
    for i in 0..s {
        let a = i % p;
        let bb = (i + 1) % p;
        rows[i].push(w + a);
        rows[i].push(w + bb);
        // D[i] = C[B+i]: the identity part
        rows[i].push(b + i);
    }
    // a column may appear twice in a row (xor cancels): normalise to parity
    for r in rows.iter_mut() {
        r.sort_unstable();
        let mut out: Vec<usize> = vec![];
        let mut i = 0;
        while i < r.len() {
            let mut j = i;
            while j < r.len() && r[j] == r[i] {
                j += 1;
            }
            if (j - i) % 2 == 1 {
                out.push(r[i]);
            }
            i = j;
        }
        *r = out;
    }
    rows
}

/// MT matrix positions: for column j in 0..K'+S-1 the two rows holding a one.
fn mt_rows(pr: &Params, j: usize) -> (usize, usize) {
    let h = pr.h;
    let r6 = rand((j + 1) as u32, 6, h);
    let r7 = rand((j + 1) as u32, 7, h - 1);
    (r6 as usize, ((r6 + r7 + 1) % h) as usize)
}

/// HDPC rows, naive product MT x GAMMA, as dense H x L byte rows (including the I_H part).
pub fn hdpc_rows_naive(pr: &Params) -> Vec<Vec<u8>> {
    let h = pr.h as usize;
    let n = (pr.kp + pr.s) as usize;
    let l = pr.l as usize;
    // MT
    let mut mt = vec![vec![0u8; n]; h];
    for j in 0..n - 1 {
        let (r1, r2) = mt_rows(pr, j);
        mt[r1][j] = 1;
        mt[r2][j] = 1;
    }
    for i in 0..h {
        mt[i][n - 1] = gf_pow(2, i as u32);
    }
    // GAMMA[i][j] = alpha^(i-j), i >= j
    let mut out = vec![vec![0u8; l]; h];
    // powers of alpha
    let mut pw = vec![1u8; n];
    for i in 1..n {
        pw[i] = mul(pw[i - 1], 2);
    }
    for r in 0..h {
        for j in 0..n {
            // (MT * GAMMA)[r][j] = sum_i MT[r][i] * GAMMA[i][j] = sum_{i>=j} MT[r][i] alpha^(i-j)
            let mut acc = 0u8;
            for i in j..n {
                if mt[r][i] != 0 {
                    acc ^= mul(mt[r][i], pw[i - j]);
                }
            }
            out[r][j] = acc;
        }
        out[r][n + r] = 1;
    }
    out
}

/// HDPC rows through the recurrence G[r][j] = alpha * G[r][j+1] + MT[r][j] (cheap, any K').
pub fn hdpc_rows(pr: &Params) -> Vec<Vec<u8>> {
    let h = pr.h as usize;
    let n = (pr.kp + pr.s) as usize;
    let l = pr.l as usize;
    let mut out = vec![vec![0u8; l]; h];
    for r in 0..h {
        out[r][n - 1] = gf_pow(2, r as u32);
    }
    for j in (0..n - 1).rev() {
        let (r1, r2) = mt_rows(pr, j);
        for r in 0..h {
            out[r][j] = mul(out[r][j + 1], 2);
        }
        out[r1][j] ^= 1;
        out[r2][j] ^= 1;
    }
    for r in 0..h {
        out[r][n + r] = 1;
    }
    out
}

/// Evaluate all H HDPC relations on a symbol vector in operator form: MT * (GAMMA * c) + c_hdpc.
/// Returns the H residual symbols (all-zero iff the relations hold).
pub fn hdpc_residual(pr: &Params, c: &[Vec<u8>]) -> Vec<Vec<u8>> {
    let h = pr.h as usize;
    let n = (pr.kp + pr.s) as usize;
    let t = c[0].len();
    let mut res = vec![vec![0u8; t]; h];
    // y[i] = alpha*y[i-1] + c[i]; (GAMMA*c)[i] = y[i]
    let mut y = vec![0u8; t];
    for j in 0..n {
        for b in 0..t {
            y[b] = mul(y[b], 2) ^ c[j][b];
        }
        if j < n - 1 {
            let (r1, r2) = mt_rows(pr, j);
            for b in 0..t {
                res[r1][b] ^= y[b];
                res[r2][b] ^= y[b];
            }
        } else {
            for r in 0..h {
                let a = gf_pow(2, r as u32);
                for b in 0..t {
                    res[r][b] ^= mul(a, y[b]);
                }
            }
        }
    }
    for r in 0..h {
        for b in 0..t {
            res[r][b] ^= c[n + r][b];
        }
    }
    res
}

/// Check every pre-code and LT relation of section 5.3.3.4 on intermediate symbols `c`:
/// S LDPC rows, H HDPC rows, and Enc[K', c, Tuple[K', i]] == padded source symbol i for
/// i in 0..K'. Returns a description of the first violated relation.
pub fn check_intermediate(pr: &Params, c: &[Vec<u8>], source: &[Vec<u8>]) -> Result<(), String> {
    if c.len() != pr.l as usize {
        return Err(format!("expected L={} intermediate symbols, got {}", pr.l, c.len()));
    }
    let t = c[0].len();
    for (i, row) in ldpc_rows(pr).iter().enumerate() {
        let mut acc = vec![0u8; t];
        for &col in row {
            for b in 0..t {
                acc[b] ^= c[col][b];
            }
        }
        if acc.iter().any(|&x| x != 0) {
            return Err(format!("LDPC relation {i} violated"));
        }
    }
    for (i, r) in hdpc_residual(pr, c).iter().enumerate() {
        if r.iter().any(|&x| x != 0) {
            return Err(format!("HDPC relation {i} violated"));
        }
    }
    let zero = vec![0u8; t];
    for i in 0..pr.kp {
        let e = enc(pr, c, i);
        let want = if (i as usize) < source.len() {
            &source[i as usize]
        } else {
            &zero
        };
        if &e != want {
            return Err(format!(
                "LT relation for ISI {i} violated ({})",
                if (i as usize) < source.len() { "source symbol" } else { "padding symbol" }
            ));
        }
    }
    Ok(())
}

// ---------------------------------------------------------------------------------------------
// Dense GF(256) linear algebra (plain Gaussian elimination)
// ---------------------------------------------------------------------------------------------

/// Full constraint matrix for a list of ISIs: S LDPC rows, H HDPC rows, one ENC row per ISI.
pub fn constraint_matrix(pr: &Params, isis: &[u32]) -> Vec<Vec<u8>> {
    let l = pr.l as usize;
    let mut a: Vec<Vec<u8>> = Vec::with_capacity(pr.s as usize + pr.h as usize + isis.len());
    for row in ldpc_rows(pr) {
        let mut r = vec![0u8; l];
        for c in row {
            r[c] = 1;
        }
        a.push(r);
    }
    a.extend(hdpc_rows(pr));
    for &x in isis {
        a.push(enc_row(pr, x));
    }
    a
}

pub fn enc_row(pr: &Params, isi: u32) -> Vec<u8> {
    let mut r = vec![0u8; pr.l as usize];
    for c in enc_indices(pr, tuple(pr, isi)) {
        r[c] ^= 1;
    }
    r
}

/// Solve A*C = D for square-or-tall A (rows x L) by Gaussian elimination over GF(256).
/// Returns None if rank(A) < L.
pub fn solve(mut a: Vec<Vec<u8>>, mut d: Vec<Vec<u8>>, l: usize) -> Option<Vec<Vec<u8>>> {
    let rows = a.len();
    assert_eq!(rows, d.len());
    let mt = mul_table();
    for col in 0..l {
        let piv = (col..rows).find(|&r| a[r][col] != 0)?;
        a.swap(col, piv);
        d.swap(col, piv);
        let inv = gf_inv(a[col][col]);
        if inv != 1 {
            let m = &mt[inv as usize];
            for x in a[col].iter_mut() {
                *x = m[*x as usize];
            }
            for x in d[col].iter_mut() {
                *x = m[*x as usize];
            }
        }
        let (prow_a, prow_d) = (a[col].clone(), d[col].clone());
        for r in 0..rows {
            if r != col && a[r][col] != 0 {
                let f = a[r][col];
                let m = &mt[f as usize];
                for (x, y) in a[r].iter_mut().zip(prow_a.iter()) {
                    *x ^= m[*y as usize];
                }
                for (x, y) in d[r].iter_mut().zip(prow_d.iter()) {
                    *x ^= m[*y as usize];
                }
            }
        }
    }
    d.truncate(l);
    Some(d)
}

/// Reference intermediate symbols for a source block (symbols as byte vectors).
pub fn intermediate_symbols(pr: &Params, source: &[Vec<u8>]) -> Option<Vec<Vec<u8>>> {
    let t = source[0].len();
    let isis: Vec<u32> = (0..pr.kp).collect();
    let a = constraint_matrix(pr, &isis);
    let mut d = vec![vec![0u8; t]; (pr.s + pr.h) as usize];
    for i in 0..pr.kp as usize {
        d.push(if i < source.len() {
            source[i].clone()
        } else {
            vec![0u8; t]
        });
    }
    solve(a, d, pr.l as usize)
}

// ---------------------------------------------------------------------------------------------
// Incremental rank oracle
// ---------------------------------------------------------------------------------------------

/// Echelon basis over GF(256) with rows added one at a time. `rank()` after every insertion.
pub struct RankOracle {
    l: usize,
    /// basis[c] = Some(row with leading one at column c, zero left of c)
    basis: Vec<Option<Vec<u8>>>,
    rank: usize,
}

impl RankOracle {
    pub fn new(l: usize) -> Self {
        RankOracle {
            l,
            basis: vec![None; l],
            rank: 0,
        }
    }
    pub fn rank(&self) -> usize {
        self.rank
    }
    pub fn full(&self) -> bool {
        self.rank == self.l
    }
    /// Insert a row; returns true if it increased the rank.
    pub fn insert(&mut self, mut row: Vec<u8>) -> bool {
        let mt = mul_table();
        for c in 0..self.l {
            if row[c] == 0 {
                continue;
            }
            match &self.basis[c] {
                Some(b) => {
                    let f = row[c];
                    let m = &mt[f as usize];
                    for (x, y) in row[c..].iter_mut().zip(b[c..].iter()) {
                        *x ^= m[*y as usize];
                    }
                }
                None => {
                    let inv = gf_inv(row[c]);
                    if inv != 1 {
                        let m = &mt[inv as usize];
                        for x in row[c..].iter_mut() {
                            *x = m[*x as usize];
                        }
                    }
                    self.basis[c] = Some(row);
                    self.rank += 1;
                    return true;
                }
            }
        }
        false
    }
}

impl Clone for RankOracle {
    fn clone(&self) -> Self {
        RankOracle {
            l: self.l,
            basis: self.basis.clone(),
            rank: self.rank,
        }
    }
}

/// Rank oracle pre-loaded with the fixed rows (LDPC, HDPC, padding ISIs K..K'-1) of a block.
pub fn base_oracle(pr: &Params) -> RankOracle {
    let mut o = RankOracle::new(pr.l as usize);
    for row in ldpc_rows(pr) {
        let mut r = vec![0u8; pr.l as usize];
        for c in row {
            r[c] = 1;
        }
        o.insert(r);
    }
    for r in hdpc_rows(pr) {
        o.insert(r);
    }
    for isi in pr.k..pr.kp {
        o.insert(enc_row(pr, isi));
    }
    o
}

/// ESI -> ISI for a block with K source symbols (padding symbols sit between source and repair).
pub fn esi_to_isi(pr: &Params, esi: u32) -> u32 {
    if esi < pr.k {
        esi
    } else {
        esi + (pr.kp - pr.k)
    }
}

// ---------------------------------------------------------------------------------------------
// Section 4.4.1.2: Partition and object layout
// ---------------------------------------------------------------------------------------------

/// Partition[I, J] -> (IL, IS, JL, JS)
pub fn partition(i: u64, j: u64) -> (u64, u64, u64, u64) {
    let il = (i + j - 1) / j;
    let is = i / j;
    let jl = i - is * j;
    let js = j - jl;
    (il, is, jl, js)
}

/// Layout of an object: for every block its K and, for every symbol, the T payload bytes.
/// `data.len() == F`. Returns blocks[z][m] = symbol bytes.
pub fn object_layout(data: &[u8], t: usize, z: usize, n: usize, al: usize) -> Vec<Vec<Vec<u8>>> {
    let f = data.len() as u64;
    let kt = (f + t as u64 - 1) / t as u64;
    let (kl, ks, zl, _zs) = partition(kt, z as u64);
    let (tl, ts, nl, _ns) = partition((t / al) as u64, n as u64);
    let byte = |off: u64| -> u8 {
        if off < f {
            data[off as usize]
        } else {
            0
        }
    };
    let mut blocks = Vec::with_capacity(z);
    let mut block_start: u64 = 0;
    for zi in 0..z as u64 {
        let k = if zi < zl { kl } else { ks };
        let mut symbols = vec![Vec::with_capacity(t); k as usize];
        // sub-block j starts after all earlier sub-blocks (each K sub-symbols)
        let mut sub_start = block_start;
        for j in 0..n as u64 {
            let sub_sym = (if j < nl { tl } else { ts }) * al as u64;
            for m in 0..k {
                let s = sub_start + m * sub_sym;
                for b in 0..sub_sym {
                    symbols[m as usize].push(byte(s + b));
                }
            }
            sub_start += k * sub_sym;
        }
        blocks.push(symbols);
        block_start += k * t as u64;
    }
    blocks
}

// ---------------------------------------------------------------------------------------------
// Section 4.3: derivation of (T, Z, N) from (F, P', WS, Al, SS)
// ---------------------------------------------------------------------------------------------

#[derive(Debug, Clone, Copy, PartialEq, Eq)]
pub struct Derived {
    pub t: u64,
    pub z: u64,
    pub n: u64,
    pub kt: u64,
    pub n_max: u64,
}

/// KL(n): largest K' in Table 2 with K' <= WS / (Al * ceil(T / (Al*n))); None if there is none.
pub fn kl(ws: u64, t: u64, al: u64, n: u64) -> Option<u64> {
    let sub = (t + al * n - 1) / (al * n);
    let bound = ws as u128 / (al as u128 * sub as u128);
    tables()
        .t2
        .iter()
        .rev()
        .map(|r| r.0 as u64)
        .find(|&kp| kp as u128 <= bound)
}

/// Returns None when no valid configuration exists (KL(N_max) undefined).
pub fn derive(f: u64, p_prime: u64, ws: u64, al: u64, ss: u64) -> Option<Derived> {
    let t = p_prime - p_prime % al;
    if t == 0 {
        return None;
    }
    let kt = (f as u128 + t as u128 - 1) / t as u128;
    let kt = kt as u64;
    let n_max = t / (ss * al);
    if n_max == 0 {
        return None;
    }
    let kl_max = kl(ws, t, al, n_max)?;
    let z = (kt + kl_max - 1) / kl_max;
    let z = z.max(if kt == 0 { 0 } else { 1 });
    let per_block = if z == 0 { 0 } else { (kt + z - 1) / z };
    let mut n = None;
    for cand in 1..=n_max {
        if let Some(k) = kl(ws, t, al, cand) {
            if per_block <= k {
                n = Some(cand);
                break;
            }
        }
    }
    Some(Derived {
        t,
        z,
        n: n?,
        kt,
        n_max,
    })
}

// ---------------------------------------------------------------------------------------------
// Wire formats (sections 3.2, 3.3.2, 3.3.3)
// ---------------------------------------------------------------------------------------------

pub fn payload_id_bytes(sbn: u8, esi: u32) -> [u8; 4] {
    [sbn, (esi / 65536) as u8, ((esi / 256) % 256) as u8, (esi % 256) as u8]
}

pub fn parse_payload_id(b: &[u8; 4]) -> (u8, u32) {
    (b[0], b[1] as u32 * 65536 + b[2] as u32 * 256 + b[3] as u32)
}

pub fn oti_bytes(f: u64, t: u16, z: u8, n: u16, al: u8) -> [u8; 12] {
    let mut out = [0u8; 12];
    let mut ff = f;
    for i in (0..5).rev() {
        out[i] = (ff % 256) as u8;
        ff /= 256;
    }
    out[5] = 0;
    out[6] = (t / 256) as u8;
    out[7] = (t % 256) as u8;
    out[8] = z;
    out[9] = (n / 256) as u8;
    out[10] = (n % 256) as u8;
    out[11] = al;
    out
}

pub fn parse_oti(b: &[u8; 12]) -> (u64, u16, u8, u16, u8) {
    let mut f = 0u64;
    for i in 0..5 {
        f = f * 256 + b[i] as u64;
    }
    (
        f,
        b[6] as u16 * 256 + b[7] as u16,
        b[8],
        b[9] as u16 * 256 + b[10] as u16,
        b[11],
    )
}

#[cfg(test)]
mod tests {
    use super::*;

    #[test]
    fn gf_basics() {
        assert_eq!(gf_mul(2, 0x80), 0x1D);
        for a in 1..=255u8 {
            assert_eq!(gf_mul(a, gf_inv(a)), 1);
        }
        // alpha generates the multiplicative group
        let mut seen = [false; 256];
        let mut x = 1u8;
        for _ in 0..255 {
            assert!(!seen[x as usize]);
            seen[x as usize] = true;
            x = gf_mul(x, 2);
        }
        assert_eq!(x, 1);
    }

    #[test]
    fn hdpc_forms_agree() {
        for k in [1u32, 10, 11, 26, 101, 257] {
            let pr = params(k);
            assert_eq!(hdpc_rows_naive(&pr), hdpc_rows(&pr), "k={k}");
            // operator form agrees with the explicit rows on a random vector
            let mut rng = crate::util::SplitMix::new(k as u64);
            let c: Vec<Vec<u8>> = (0..pr.l).map(|_| rng.bytes(3)).collect();
            let res = hdpc_residual(&pr, &c);
            let rows = hdpc_rows(&pr);
            for r in 0..pr.h as usize {
                let mut acc = vec![0u8; 3];
                for (j, &coef) in rows[r].iter().enumerate() {
                    for b in 0..3 {
                        acc[b] ^= mul(coef, c[j][b]);
                    }
                }
                assert_eq!(acc, res[r]);
            }
        }
    }

    #[test]
    fn reference_solution_satisfies_constraints() {
        for k in [1u32, 5, 10, 12, 27, 60] {
            let pr = params(k);
            let mut rng = crate::util::SplitMix::new(k as u64 + 99);
            let src: Vec<Vec<u8>> = (0..k).map(|_| rng.bytes(2)).collect();
            let c = intermediate_symbols(&pr, &src).expect("A must be invertible");
            check_intermediate(&pr, &c, &src).unwrap();
        }
    }

    #[test]
    fn sha256_vectors() {
        assert_eq!(
            crate::util::sha256_hex(b"abc"),
            "ba7816bf8f01cfea414140de5dae2223b00361a396177a9cb410ff61f20015ad"
        );
        assert_eq!(
            crate::util::sha256_hex(b""),
            "e3b0c44298fc1c149afbf4c8996fb92427ae41e4649b934ca495991b7852b855"
        );
        let long = vec![b'a'; 1000];
        let mut s = crate::util::Sha256::new();
        s.update(&long[..77]);
        s.update(&long[77..]);
        assert_eq!(crate::util::hex(&s.finish()), crate::util::sha256_hex(&long));
    }
}

// ---------------------------------------------------------------------------------------------
// Structured rank for large L: GF(2) elimination of the binary rows on bitsets, then the H HDPC
// rows are reduced against that basis and the rank of the residual is taken over GF(256).
// (rank over GF(2) of a 0/1 matrix equals its rank over any extension field)
// ---------------------------------------------------------------------------------------------

/// rank of [LDPC; HDPC; ENC rows for `isis`] over GF(256), L columns.
pub fn rank_structured(pr: &Params, isis: &[u32]) -> usize {
    let l = pr.l as usize;
    let words = (l + 63) / 64;
    let mut rows: Vec<Vec<u64>> = Vec::with_capacity(pr.s as usize + isis.len());
    for r in ldpc_rows(pr) {
        let mut b = vec![0u64; words];
        for c in r {
            b[c / 64] ^= 1u64 << (c % 64);
        }
        rows.push(b);
    }
    for &x in isis {
        let mut b = vec![0u64; words];
        for c in enc_indices(pr, tuple(pr, x)) {
            b[c / 64] ^= 1u64 << (c % 64);
        }
        rows.push(b);
    }
    // Gauss-Jordan over GF(2): pivot_of_col[c] = index into `basis`
    let mut basis: Vec<Vec<u64>> = vec![];
    let mut pivot_cols: Vec<usize> = vec![];
    let mut col_to_basis: Vec<Option<usize>> = vec![None; l];
    for mut row in rows {
        // reduce by existing basis (each basis row has a unique pivot column)
        for (bi, &pc) in pivot_cols.iter().enumerate() {
            if row[pc / 64] >> (pc % 64) & 1 == 1 {
                for w in 0..words {
                    row[w] ^= basis[bi][w];
                }
            }
        }
        // find first set bit
        let mut pc = None;
        for w in 0..words {
            if row[w] != 0 {
                pc = Some(w * 64 + row[w].trailing_zeros() as usize);
                break;
            }
        }
        if let Some(pc) = pc {
            // eliminate pc from the existing basis rows (keeps the basis fully reduced)
            for b in basis.iter_mut() {
                if b[pc / 64] >> (pc % 64) & 1 == 1 {
                    for w in 0..words {
                        b[w] ^= row[w];
                    }
                }
            }
            col_to_basis[pc] = Some(basis.len());
            pivot_cols.push(pc);
            basis.push(row);
        }
    }
    let rb = basis.len();
    if rb == l {
        return l;
    }
    // reduce the HDPC rows against the (fully reduced) binary basis
    let free_cols: Vec<usize> = (0..l).filter(|c| col_to_basis[*c].is_none()).collect();
    let mut resid: Vec<Vec<u8>> = vec![];
    for h in hdpc_rows(pr) {
        // residual on free columns: h[f] + sum over pivot cols c of h[c] * basis_c[f]
        let mut out: Vec<u8> = free_cols.iter().map(|&f| h[f]).collect();
        for (bi, &pc) in pivot_cols.iter().enumerate() {
            let coef = h[pc];
            if coef == 0 {
                continue;
            }
            let b = &basis[bi];
            for (o, &f) in out.iter_mut().zip(free_cols.iter()) {
                if b[f / 64] >> (f % 64) & 1 == 1 {
                    *o ^= coef;
                }
            }
        }
        resid.push(out);
    }
    let mut o = RankOracle::new(free_cols.len());
    for r in resid {
        o.insert(r);
    }
    rb + o.rank()
}

/// Rank of the binary part only (LDPC + ENC rows), used to classify fast-path cases.
pub fn rank_binary(pr: &Params, isis: &[u32]) -> usize {
    let l = pr.l as usize;
    let words = (l + 63) / 64;
    let mut basis: Vec<Option<Vec<u64>>> = vec![None; l];
    let mut rank = 0;
    let mut push = |mut row: Vec<u64>, basis: &mut Vec<Option<Vec<u64>>>| {
        loop {
            let mut pc = None;
            for w in 0..words {
                if row[w] != 0 {
                    pc = Some(w * 64 + row[w].trailing_zeros() as usize);
                    break;
                }
            }
            match pc {
                None => return false,
                Some(c) => match &basis[c] {
                    Some(b) => {
                        for w in 0..words {
                            row[w] ^= b[w];
                        }
                    }
                    None => {
                        basis[c] = Some(row);
                        return true;
                    }
                },
            }
        }
    };
    for r in ldpc_rows(pr) {
        let mut b = vec![0u64; words];
        for c in r {
            b[c / 64] ^= 1u64 << (c % 64);
        }
        if push(b, &mut basis) {
            rank += 1;
        }
    }
    for &x in isis {
        let mut b = vec![0u64; words];
        for c in enc_indices(pr, tuple(pr, x)) {
            b[c / 64] ^= 1u64 << (c % 64);
        }
        if push(b, &mut basis) {
            rank += 1;
        }
    }
    rank
}

#[cfg(test)]
mod rank_tests {
    use super::*;

    #[test]
    fn structured_rank_agrees_with_dense() {
        let mut rng = crate::util::SplitMix::new(42);
        for k in [5u32, 10, 17, 40, 101] {
            let pr = params(k);
            for trial in 0..30 {
                let mut isis: Vec<u32> = (k..pr.kp).collect();
                let n = k as usize + (trial % 4);
                let mut esis = std::collections::BTreeSet::new();
                while esis.len() < n {
                    esis.insert(rng.below(3 * k as u64 + 50) as u32);
                }
                for e in esis {
                    isis.push(esi_to_isi(&pr, e));
                }
                let a = constraint_matrix(&pr, &isis);
                let mut o = RankOracle::new(pr.l as usize);
                for r in a {
                    o.insert(r);
                }
                assert_eq!(o.rank(), rank_structured(&pr, &isis), "k={k} trial={trial}");
            }
        }
    }
}

//! rqv library: reference model, generators, oracles and per-property checks (shared by the
//! `rqv` binary and the fuzz targets).

pub mod c01;
pub mod c02;
pub mod c03;
pub mod c04;
pub mod c05;
pub mod c06;
pub mod c07;
pub mod c08;
pub mod c09;
pub mod c10;
pub mod c11;
pub mod c12;
pub mod c13;
pub mod c14;
pub mod c15;
pub mod c16;
pub mod c17;
pub mod c18;
pub mod c19;
pub mod codec;
pub mod reference;
pub mod util;

pub use util::{Report, Tier};

pub struct Ctx {
    pub tier: Tier,
    pub seed: u64,
    /// restrict the run to one named group of sub-checks (companion runs)
    pub only: Option<String>,
}

impl Ctx {
    pub fn wants(&self, group: &str) -> bool {
        self.only.as_deref().map_or(true, |o| o == group)
    }
}

/// Fuzz targets (shared by the libFuzzer binaries and `rqv FUZZ <target> <files..>` replays).
pub fn fuzz_target(name: &str, data: &[u8]) -> Result<(), String> {
    match name {
        "fz_kernels" => {
            c11::fuzz_one(data)?;
            c12::fuzz_slab(data)
        }
        "fz_matrix" => c16::fuzz_one(data),
        "fz_codec" => {
            c01::fuzz_one(data)?;
            c08::fuzz_one(data)
        }
        _ => Err(format!("unknown fuzz target {name}")),
    }
}

/// Property a failing fuzz input of the given target is attributed to, from its message.
pub fn fuzz_property(name: &str, msg: &str) -> &'static str {
    match name {
        "fz_kernels" => {
            if msg.contains("pair borrow") || msg.contains("not the destination") || msg.contains("was accepted") || msg.contains("count ") {
                "C12"
            } else {
                "C11"
            }
        }
        "fz_matrix" => "C16",
        _ => {
            if msg.contains("step") && (msg.contains("clone") || msg.contains("get_result") || msg.contains("ascending") || msg.contains("batched") || msg.contains("answered before")) {
                "C08"
            } else {
                "C01"
            }
        }
    }
}

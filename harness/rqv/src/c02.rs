//! C02 — a block decodes exactly when the received symbols determine it.
//! Oracle: independent rank of the RFC 6330 constraint matrix for the received set, maintained
//! incrementally so that the predicate is known after every prefix of the arrival sequence.

use crate::codec::{block_cfg, make_data, repair_esi, DataClass};
use crate::reference as rf;
use crate::util::{catch, fnv_u64s, run_items, run_sharded, simple_failure, Report, SplitMix, Stats, Tier};
use crate::Ctx;
use proptest::prelude::*;
use raptorq::{EncodingPacket, SourceBlockDecoder, SourceBlockEncoder};
use serde_json::{json, Value};
use std::collections::{BTreeSet, HashMap};
use std::sync::{Arc, Mutex, OnceLock};

#[derive(Debug, Clone)]
pub struct Case {
    k: u32,
    t: usize,
    /// distinct ESIs in arrival order
    esis: Vec<u32>,
    /// 0 default threshold, 1 sparse, 2 dense
    backend: u8,
}

struct BlockFixture {
    data: Vec<u8>,
    enc: SourceBlockEncoder,
    source: Vec<EncodingPacket>,
    oracle: rf::RankOracle,
    pr: rf::Params,
}

fn fixture(k: u32, t: usize) -> Arc<BlockFixture> {
    static CACHE: OnceLock<Mutex<HashMap<(u32, usize), Arc<BlockFixture>>>> = OnceLock::new();
    let cache = CACHE.get_or_init(|| Mutex::new(HashMap::new()));
    if let Some(f) = cache.lock().unwrap().get(&(k, t)) {
        return f.clone();
    }
    let pr = rf::params(k);
    let data = make_data(DataClass::Random, 0xC02 + k as u64, k as usize * t);
    let cfg = block_cfg(k as usize, t);
    let enc = SourceBlockEncoder::new(0, &cfg, &data);
    let source = enc.source_packets();
    let f = Arc::new(BlockFixture { data, source, oracle: rf::base_oracle(&pr), enc, pr });
    cache.lock().unwrap().insert((k, t), f.clone());
    f
}

/// Build an arrival sequence of distinct ESIs: `s` source symbols and repair symbols from the
/// three ESI classes, K + overhead in total, in an order chosen by `mode`.
fn build_sequence(k: u32, s: u32, overhead: u32, seed: u64, mode: u8) -> Vec<u32> {
    let mut rng = SplitMix::new(seed);
    let s = s.min(k);
    let mut src: Vec<u32> = (0..k).collect();
    rng.shuffle(&mut src);
    src.truncate(s as usize);
    let total = (k + overhead) as usize;
    let mut rep = BTreeSet::new();
    let class_bias = rng.below(4);
    let mut stale = 0u32;
    while src.len() + rep.len() < total {
        // a class with few distinct values (near: 41) may run dry: fall back to the uniform class
        let class = if stale > 50 { 1 } else if class_bias == 3 { rng.next_u64() } else { class_bias };
        if rep.insert(repair_esi(class, rng.next_u64(), k)) {
            stale = 0;
        } else {
            stale += 1;
        }
    }
    let mut rep: Vec<u32> = rep.into_iter().collect();
    rng.shuffle(&mut rep);
    let mut all = vec![];
    match mode % 3 {
        0 => {
            all.extend(src);
            all.extend(rep);
            rng.shuffle(&mut all);
        }
        1 => {
            all.extend(src);
            all.extend(rep);
        }
        _ => {
            all.extend(rep);
            all.extend(src);
        }
    }
    all
}

fn strategy(kmax: u32) -> impl Strategy<Value = Case> {
    (
        prop_oneof![6 => 1u32..=60, 2 => 1u32..=kmax, 1 => Just(10u32), 1 => Just(26u32)],
        any::<u64>(),
        0u8..12,
        any::<u64>(),
        0u8..3,
        prop_oneof![3 => Just(1usize), 1 => Just(3usize)],
        0u8..3,
    )
        .prop_map(|(k, rs, omode, seed, mode, t, backend)| {
            let pr = rf::params(k);
            // number of source symbols: 0..K-1 of them, or all K
            let s = match rs % 5 {
                0 => k,
                1 => 0,
                2 => k.saturating_sub(1),
                _ => ((rs >> 8) % (k as u64 + 1)) as u32,
            };
            // overhead classes: {0,1,2,3} U {H-2..H+3} U {S+H}; the last two straddle the trigger
            // of the binary-only fast path (received >= K + H)
            let overhead = match omode {
                0..=3 => omode as u32,
                4..=9 => pr.h - 2 + (omode as u32 - 4),
                10 => pr.s + pr.h,
                _ => pr.h + 3 + ((rs >> 20) % 6) as u32,
            };
            Case { k, t, esis: build_sequence(k, s, overhead, seed, mode), backend }
        })
}

fn packet(fx: &BlockFixture, esi: u32) -> EncodingPacket {
    if esi < fx.pr.k {
        fx.source[esi as usize].clone()
    } else {
        fx.enc.repair_packets(esi - fx.pr.k, 1).pop().unwrap()
    }
}

fn check(c: &Case, st: &mut Stats) -> Result<(), String> {
    let fx = fixture(c.k, c.t);
    let pr = fx.pr;
    let k = c.k;
    let cfg = block_cfg(k as usize, c.t);
    let mut dec = SourceBlockDecoder::new(0, &cfg, (k as usize * c.t) as u64);
    match c.backend {
        1 => dec.verif_set_sparse_threshold(0),
        2 => dec.verif_set_sparse_threshold(u32::MAX),
        _ => {}
    }
    let mut oracle = fx.oracle.clone();
    let mut src = 0u32;
    let mut received = 0u32;
    let mut nontrivial_prefix = false;
    let (mut deficient_at_k, mut fast_path_fallback, mut fast_path_ok, mut all_source_path) = (0u32, 0u32, 0u32, false);
    let mut isis: Vec<u32> = (k..pr.kp).collect();
    for (step, &esi) in c.esis.iter().enumerate() {
        let isi = rf::esi_to_isi(&pr, esi);
        oracle.insert(rf::enc_row(&pr, isi));
        isis.push(isi);
        received += 1;
        if esi < k {
            src += 1;
        }
        let got = dec.decode(std::iter::once(packet(&fx, esi)));
        let full = oracle.full();
        let want = src == k || full;
        st.eval();
        if received >= k && src < k {
            nontrivial_prefix = true;
            if !full {
                deficient_at_k += 1;
            }
            // fast path is attempted when received >= K + H (S + encoded >= L)
            if received >= k + pr.h && full {
                if rf::rank_binary(&pr, &isis) < pr.l as usize {
                    fast_path_fallback += 1;
                } else {
                    fast_path_ok += 1;
                }
            }
        }
        if src == k {
            all_source_path = true;
        }
        match (&got, want) {
            (Some(bytes), true) => {
                if bytes != &fx.data {
                    return Err(format!("K={k}: after {} symbols the decoder returned wrong bytes (step {step})", received));
                }
            }
            (None, false) => {}
            (None, true) => {
                return Err(format!(
                    "K={k} (K'={}, L={}): gave up on a decodable set: {} distinct symbols ({} source), rank(A) = {} = L, yet decode() returned None (step {step}, received >= K+H: {})",
                    pr.kp, pr.l, received, src, oracle.rank(), received >= k + pr.h
                ));
            }
            (Some(_), false) => {
                return Err(format!(
                    "K={k} (K'={}, L={}): answered for an undecodable set: {} distinct symbols ({} source), rank(A) = {} < L (step {step})",
                    pr.kp, pr.l, received, src, oracle.rank()
                ));
            }
        }
    }
    st.class_n("prefix: rank-deficient at >= K symbols (decoder must say None)", deficient_at_k as u64);
    st.class_n("prefix: binary-only attempt fails, full solve must succeed", fast_path_fallback as u64);
    st.class_n("prefix: binary-only attempt sufficient", fast_path_ok as u64);
    st.class_if(all_source_path, "history reaching all K source symbols");
    st.class_if(pr.kp > k, "padding symbols present");
    st.class(match c.backend {
        1 => "back-end: sparse",
        2 => "back-end: dense",
        _ => "back-end: default",
    });
    if nontrivial_prefix {
        let mut v: Vec<u64> = vec![k as u64, c.t as u64];
        v.extend(c.esis.iter().map(|&e| e as u64));
        st.nt(fnv_u64s(&v));
    }
    st.sample(|| json!({"K": k, "K'": pr.kp, "L": pr.l, "H": pr.h, "arrivals": c.esis.len(), "first_esis": &c.esis[..c.esis.len().min(12)], "deficient_prefixes": deficient_at_k, "fallback_prefixes": fast_path_fallback}));
    Ok(())
}

// --- small blocks at overhead 0, in bulk -----------------------------------------------------------

/// Exactly K distinct symbols of a small block in one call (then one more): at a few microseconds
/// per case millions of sets can be judged, which is what a defect confined to one set in 10^5
/// needs. Repair-only sets and mixed sets.
fn strategy_smallk() -> impl Strategy<Value = Case> {
    (prop_oneof![6 => 8u32..=13, 1 => 1u32..=7, 2 => 14u32..=30], any::<u64>(), any::<u64>(), 0u8..3).prop_map(|(k, rs, seed, backend)| {
        let s = match rs % 4 {
            0 | 1 => 0,
            2 => k - 1,
            _ => ((rs >> 8) % k as u64) as u32,
        };
        // overhead 1: the check judges the K-prefix and the full set
        Case { k, t: 1, esis: build_sequence(k, s, 1, seed, 1), backend }
    })
}

fn check_smallk(c: &Case, st: &mut Stats) -> Result<(), String> {
    let fx = fixture(c.k, c.t);
    let pr = fx.pr;
    let k = c.k;
    let cfg = block_cfg(k as usize, c.t);
    let mut oracle = fx.oracle.clone();
    let mut src = 0u32;
    for (n, &esi) in c.esis.iter().enumerate() {
        oracle.insert(rf::enc_row(&pr, rf::esi_to_isi(&pr, esi)));
        if esi < k {
            src += 1;
        }
        let received = n as u32 + 1;
        if received < k {
            continue;
        }
        let mut dec = SourceBlockDecoder::new(0, &cfg, (k as usize * c.t) as u64);
        match c.backend {
            1 => dec.verif_set_sparse_threshold(0),
            2 => dec.verif_set_sparse_threshold(u32::MAX),
            _ => {}
        }
        let got = dec.decode(c.esis[..=n].iter().map(|&e| packet(&fx, e)).collect::<Vec<_>>());
        let want = src == k || oracle.full();
        st.eval();
        if received == k && src < k {
            st.class(if want { "exactly K symbols, full rank" } else { "exactly K symbols, rank deficient" });
            if n == k as usize - 1 {
                st.nt(fnv_u64s(&[k as u64, crate::util::fnv_u64s(&c.esis[..=n].iter().map(|&e| e as u64).collect::<Vec<_>>())]));
            }
        }
        match (&got, want) {
            (Some(bytes), true) if bytes != &fx.data => return Err(format!("K={k}: a batch of {received} symbols ({src} source) returned wrong bytes")),
            (None, true) => {
                return Err(format!(
                    "K={k} (K'={}, L={}): gave up on a decodable set: {received} distinct symbols ({src} source) in one call, rank(A) = L, yet decode() returned None; ESIs {:?}",
                    pr.kp,
                    pr.l,
                    &c.esis[..=n]
                ))
            }
            (Some(_), false) => return Err(format!("K={k}: answered for an undecodable set: {received} distinct symbols ({src} source), rank(A) = {} < L", oracle.rank())),
            _ => {}
        }
    }
    st.sample(|| json!({"K": k, "esis": c.esis, "source": src}));
    Ok(())
}

// --- adversarial arrival sequences: several consecutive rank-deficient prefixes ------------------

/// An arrival sequence (source symbols first, at least one missing) whose prefixes of length
/// K, K+1, .., K+depth are ALL rank deficient, followed by symbols that complete the rank and two
/// more. Built with the rank oracle: a deficient K-set is found by sampling (about one set in 150),
/// every further symbol is searched among generated repair ESIs so that the rank stays below L.
/// Random sequences practically never contain such prefixes (probability about 256^-depth).
pub fn adversarial_sequence(k: u32, seed: u64, depth: u32) -> Option<Vec<u32>> {
    let fx = fixture(k, 1);
    let pr = fx.pr;
    let mut rng = SplitMix::new(seed);
    let row = |e: u32| rf::enc_row(&pr, rf::esi_to_isi(&pr, e));
    for _ in 0..6000 {
        let missing = 1 + rng.below(k.min(4) as u64) as u32;
        let mut seq = build_sequence(k, k - missing, 0, rng.next_u64(), 1);
        let mut oracle = fx.oracle.clone();
        for &e in &seq {
            oracle.insert(row(e));
        }
        if oracle.full() {
            continue;
        }
        let mut used: std::collections::HashSet<u32> = seq.iter().copied().collect();
        let mut ok = true;
        for _ in 0..depth {
            let mut found = None;
            for _ in 0..4000 {
                let e = repair_esi(rng.next_u64(), rng.next_u64(), k);
                if used.contains(&e) {
                    continue;
                }
                let mut o2 = oracle.clone();
                o2.insert(row(e));
                if !o2.full() {
                    found = Some((e, o2));
                    break;
                }
            }
            match found {
                Some((e, o2)) => {
                    seq.push(e);
                    used.insert(e);
                    oracle = o2;
                }
                None => {
                    ok = false;
                    break;
                }
            }
        }
        if !ok {
            continue;
        }
        // rescue: new repair symbols until the rank is full, then two more
        let mut after = 0;
        let mut guard = 0;
        while after < 2 && guard < 400 {
            guard += 1;
            let e = repair_esi(rng.next_u64(), rng.next_u64(), k);
            if !used.insert(e) {
                continue;
            }
            if oracle.full() {
                after += 1;
            }
            oracle.insert(row(e));
            seq.push(e);
        }
        if oracle.full() {
            return Some(seq);
        }
    }
    None
}

pub fn adversarial_k(r: u64) -> u32 {
    match r % 8 {
        0 => 10,
        1 => 26,
        2 => 50,
        3 => 100,
        _ => 1 + ((r >> 8) % 40) as u32,
    }
}

fn strategy_adversarial() -> impl Strategy<Value = Case> {
    (any::<u64>(), any::<u64>(), 1u32..=4, 0u8..3).prop_map(|(rk, seed, depth, backend)| {
        let k = adversarial_k(rk);
        // (a block size for which no sequence is found within the budget yields an empty case)
        let esis = adversarial_sequence(k, seed, depth).unwrap_or_default();
        Case { k, t: 1, esis, backend }
    })
}

// --- one batch call with a generated (possibly very large) overhead -------------------------------

fn strategy_batch() -> impl Strategy<Value = Case> {
    (
        prop_oneof![6 => 1u32..=60, 1 => 61u32..=300, 1 => Just(10u32)],
        any::<u64>(),
        0u8..10,
        any::<u64>(),
        0u8..3,
        prop_oneof![3 => Just(1usize), 1 => Just(2usize)],
        0u8..3,
    )
        .prop_map(|(k, rs, omode, seed, mode, t, backend)| {
            let pr = rf::params(k);
            // at least one source symbol missing, so that the answer needs the solver
            let s = match rs % 4 {
                0 => 0,
                1 => k - 1,
                _ => ((rs >> 8) % k as u64) as u32,
            };
            let extra = (rs >> 24) % 16;
            let overhead = match omode {
                0 => 0,
                1 => 1 + (extra % 3) as u32,
                2 => pr.h - 1 + (extra % 3) as u32,
                3 => pr.s + pr.h + (extra % 4) as u32,
                4 => k + (extra % 5) as u32,          // as many extra symbols as K
                5 => 60 + extra as u32,
                6 => 248 + extra as u32,              // across 255/256
                7 => 500 + (extra * 20) as u32,
                8 => 2040 + extra as u32,             // beyond 2^11; only on small blocks
                _ => 4 * k + extra as u32,
            };
            let overhead = if k > 60 { overhead.min(300) } else { overhead };
            Case { k, t, esis: build_sequence(k, s, overhead, seed, mode), backend }
        })
}

/// One call carrying more than 2^16 distinct symbols of a small block (row counts beyond 16 bits).
fn strategy_hugebatch() -> impl Strategy<Value = Case> {
    (prop_oneof![4 => 1u32..=20, 1 => 21u32..=100], any::<u64>(), prop_oneof![3 => 65_300u32..=66_200, 1 => 66_000u32..=140_000], any::<u64>(), 0u8..3, 0u8..3).prop_map(
        |(k, rs, overhead, seed, mode, backend)| {
            let s = match rs % 3 {
                0 => 0,
                1 => k - 1,
                _ => ((rs >> 8) % k as u64) as u32,
            };
            Case { k, t: 1, esis: build_sequence(k, s, overhead, seed, mode), backend }
        },
    )
}

fn check_batch(c: &Case, st: &mut Stats) -> Result<(), String> {
    let fx = fixture(c.k, c.t);
    let pr = fx.pr;
    let k = c.k;
    let cfg = block_cfg(k as usize, c.t);
    let mut dec = SourceBlockDecoder::new(0, &cfg, (k as usize * c.t) as u64);
    match c.backend {
        1 => dec.verif_set_sparse_threshold(0),
        2 => dec.verif_set_sparse_threshold(u32::MAX),
        _ => {}
    }
    let mut oracle = fx.oracle.clone();
    let mut src = 0u32;
    for &esi in &c.esis {
        oracle.insert(rf::enc_row(&pr, rf::esi_to_isi(&pr, esi)));
        if esi < k {
            src += 1;
        }
    }
    let received = c.esis.len() as u32;
    let want = src == k || oracle.full();
    let got = dec.decode(c.esis.iter().map(|&e| packet(&fx, e)).collect::<Vec<_>>());
    st.eval();
    let overhead = received as i64 - k as i64;
    st.class(match overhead {
        i64::MIN..=3 => "overhead <= 3",
        4..=59 => "overhead 4..59",
        60..=247 => "overhead 60..247",
        248..=499 => "overhead 248..499",
        500..=59_999 => "overhead >= 500",
        _ => "overhead >= 60000 (more than 2^16 rows)",
    });
    st.class_if(!want, "rank-deficient batch (decoder must say None)");
    if src < k && received >= k {
        st.nt(fnv_u64s(&[k as u64, c.t as u64, received as u64, crate::util::fnv_u64s(&c.esis.iter().map(|&e| e as u64).collect::<Vec<_>>())]));
    }
    st.sample(|| json!({"K": k, "received_in_one_call": received, "source": src, "full_rank": want}));
    match (&got, want) {
        (Some(bytes), true) if bytes != &fx.data => Err(format!("K={k}: a batch of {received} symbols ({src} source) returned wrong bytes")),
        (None, true) => Err(format!("K={k} (K'={}, L={}): gave up on a decodable set: one batch of {received} distinct symbols ({src} source), rank(A) = L, yet decode() returned None", pr.kp, pr.l)),
        (Some(_), false) => Err(format!("K={k}: answered for an undecodable set: one batch of {received} distinct symbols ({src} source), rank(A) = {} < L", oracle.rank())),
        _ => Ok(()),
    }
}

// --- large blocks: structured rank at selected set sizes -----------------------------------------

#[derive(Debug, Clone)]
pub struct LargeItem {
    k: u32,
    s: u32,
    overhead: u32,
    seed: u64,
    backend: u8,
}

fn check_large(it: &LargeItem, st: &mut Stats) -> Result<(), String> {
    let k = it.k;
    let pr = rf::params(k);
    let esis = build_sequence(k, it.s, it.overhead, it.seed, 0);
    let data = make_data(DataClass::Random, it.seed, k as usize);
    let cfg = block_cfg(k as usize, 1);
    let enc = SourceBlockEncoder::new(0, &cfg, &data);
    let src = enc.source_packets();
    let mut dec = SourceBlockDecoder::new(0, &cfg, k as u64);
    match it.backend {
        1 => dec.verif_set_sparse_threshold(0),
        2 => dec.verif_set_sparse_threshold(u32::MAX),
        _ => {}
    }
    let pkts: Vec<EncodingPacket> = esis
        .iter()
        .map(|&e| if e < k { src[e as usize].clone() } else { enc.repair_packets(e - k, 1).pop().unwrap() })
        .collect();
    let got = dec.decode(pkts);
    let mut isis: Vec<u32> = (k..pr.kp).collect();
    isis.extend(esis.iter().map(|&e| rf::esi_to_isi(&pr, e)));
    let n_src = esis.iter().filter(|&&e| e < k).count() as u32;
    let rank = rf::rank_structured(&pr, &isis);
    let want = n_src == k || rank == pr.l as usize;
    st.eval();
    st.class_if(rank < pr.l as usize, "rank-deficient set");
    st.class_if(it.overhead >= pr.h, "binary-only fast path attempted");
    if n_src < k {
        st.nt(fnv_u64s(&[k as u64, it.s as u64, it.overhead as u64, it.seed]));
    }
    st.sample(|| json!({"K": k, "L": pr.l, "source": n_src, "overhead": it.overhead, "rank": rank}));
    match (&got, want) {
        (Some(b), true) if b == &data => Ok(()),
        (Some(_), true) => Err(format!("K={k}: wrong bytes")),
        (None, false) => Ok(()),
        (None, true) => Err(format!("K={k} (L={}): gave up on a decodable set ({} symbols, {} source, rank {} = L)", pr.l, esis.len(), n_src, rank)),
        (Some(_), false) => Err(format!("K={k} (L={}): answered for an undecodable set (rank {rank} < L)", pr.l)),
    }
}

fn to_json(c: &Case) -> Value {
    json!({"k": c.k, "t": c.t, "esis": c.esis, "backend": c.backend})
}

fn from_json(v: &Value) -> Case {
    Case {
        k: v["k"].as_u64().unwrap() as u32,
        t: v["t"].as_u64().unwrap() as usize,
        esis: {
            let mut e: Vec<u32> = v["esis"].as_array().unwrap().iter().map(|x| x.as_u64().unwrap() as u32).collect();
            // compact form for hand-written regression inputs: "esi_range": [first, count]
            if let Some(r) = v.get("esi_range").and_then(|r| r.as_array()) {
                let (a, n) = (r[0].as_u64().unwrap() as u32, r[1].as_u64().unwrap() as u32);
                e.extend(a..a + n);
            }
            e
        },
        backend: v["backend"].as_u64().unwrap_or(0) as u8,
    }
}

fn signature(_: &Case, msg: &str) -> String {
    sig(msg)
}

fn sig(msg: &str) -> String {
    let kind = if msg.contains("panic") {
        "panic"
    } else if msg.contains("gave up") {
        if msg.contains("received >= K+H: true") {
            "gave-up:fast-path-range"
        } else {
            "gave-up"
        }
    } else if msg.contains("undecodable") {
        "answered-undecodable"
    } else if msg.contains("wrong bytes") {
        "wrong-bytes"
    } else {
        "other"
    };
    format!("decodability:{kind}")
}

pub fn run(ctx: &Ctx, rep: &mut Report) {
    rep.rule = "generated arrival sequences of distinct ESIs for one block: K in 1..=60 weighted (up to 300 quick / 600 thorough), a generated number of source symbols (none, all, K-1, or uniform) plus repair ESIs from the near / uniform-24-bit / far classes, K + overhead symbols in total with overhead in {0,1,2,3} U {H-2..H+3} U {S+H} U {H+3..H+8} (the latter straddle the trigger of the binary-only fast path), in shuffled / source-first / repair-first order, decoder back-end default / sparse / dense. After EVERY packet: decode(..).is_some() <=> (all K source symbols received) or (rank of the RFC constraint matrix for the received set = L), with the rank computed by an independent incremental GF(256) elimination over reference-generated rows; Some implies the right bytes. A second group hands the whole set to the decoder in ONE call, with a source symbol missing and an overhead drawn from {0, 1..3, H-1..H+1, S+H.., K.., 60.., 248..263 (across 255/256), 500..800, 2040.. , 4K..} (the large ones on K <= 60), same oracle; a third group ('hugebatch') hands 65 300..140 000 distinct symbols of a block of at most 100 symbols to the decoder in one call (more than 2^16 matrix rows). A bulk group ('smallk': 3 million sets quick, 60 million thorough) judges exactly K (then K+1) symbols of blocks of 1..30 symbols (weighted to 8..13), repair-only or mixed, in one call each. A fourth group ('adversarial', also run in the chk profile) feeds arrival sequences constructed with the rank oracle so that the prefixes of length K, K+1, .., K+depth (depth 1..4) are ALL rank deficient before further symbols complete the rank - histories that random generation reaches with probability about 256^-depth - and applies the per-packet oracle to them. Large blocks (K' up to 2000 quick / 10000 thorough) are checked at selected set sizes with a structured rank routine (bit-packed GF(2) elimination + GF(256) residual of the HDPC rows). Non-trivial = a sequence with a prefix of >= K distinct symbols and a source symbol missing; distinct by (K, T, sequence).".into();
    rep.assumptions.push("rank oracle rows come from the reference model (trusted tables); exact incremental oracle for K <= 600, structured rank up to K' = 10000; beyond that only C01's soundness applies".into());
    let kmax = ctx.tier.pick(300u32, 600);
    if ctx.only.is_none() {
    let n = std::env::var("C02_N").ok().and_then(|s| s.parse().ok()).unwrap_or(ctx.tier.pick(200_000u64, 2_000_000));
    rep.absorb("prefixes", run_sharded("C02", "prefixes", ctx.seed, n, 64, move || strategy(kmax), check, to_json, signature));

    let n = ctx.tier.pick(40_000u64, 600_000);
    rep.absorb("batch", run_sharded("C02", "batch", ctx.seed, n, 64, strategy_batch, check_batch, to_json, signature));
    }

    if ctx.only.is_none() {
        let n = ctx.tier.pick(3_000_000u64, 60_000_000);
        rep.absorb("smallk", run_sharded("C02", "smallk", ctx.seed, n, 64, strategy_smallk, check_smallk, to_json, signature));
    }
    if ctx.wants("adversarial") {
        let n = ctx.tier.pick(400u64, 6000);
        rep.absorb("adversarial", run_sharded("C02", "adversarial", ctx.seed, n, 32, strategy_adversarial, check, to_json, signature));
    }
    if ctx.only.is_some() {
        return;
    }
    let n = ctx.tier.pick(32u64, 600);
    rep.absorb("hugebatch", run_sharded("C02", "hugebatch", ctx.seed, n, 16, strategy_hugebatch, check_batch, to_json, signature));

    // large blocks
    let mut rng = SplitMix::new(crate::util::mix(ctx.seed, 202));
    let mut items = vec![];
    let kps: Vec<u32> = rf::tables().t2.iter().map(|r| r.0).filter(|&k| k <= 2000).collect();
    let reps = ctx.tier.pick(1usize, 6);
    for _ in 0..reps {
        for &kp in &kps {
            if kp < 300 {
                continue;
            }
            let pr = rf::params(kp);
            let k = if rng.below(2) == 0 { kp } else { kp - 1 - rng.below(5) as u32 };
            for overhead in [0u32, 1, pr.h - 1, pr.h, pr.h + 1] {
                if ctx.tier == Tier::Quick && rng.below(3) != 0 {
                    continue;
                }
                let s = match rng.below(4) {
                    0 => 0,
                    1 => k - 1,
                    _ => rng.below(k as u64) as u32,
                };
                items.push(LargeItem { k, s, overhead, seed: rng.next_u64(), backend: rng.below(3) as u8 });
            }
        }
    }
    if ctx.tier == Tier::Thorough {
        for k in [2500u32, 3000, 4000, 5000, 6000, 7000, 8000, 9000, 9999, 10000] {
            let pr = rf::params(k);
            for overhead in [0u32, 1, pr.h] {
                items.push(LargeItem { k, s: rng.below(k as u64) as u32, overhead, seed: rng.next_u64(), backend: 0 });
            }
        }
    }
    let mut out = run_items(&items, |it, st| {
        let r = match catch(|| check_large(it, st)) {
            Ok(r) => r,
            Err(p) => Err(format!("K={}: panic: {p}", it.k)),
        };
        r.map_err(|m| simple_failure("large", m.clone(), sig(&m), json!({"k": it.k, "s": it.s, "overhead": it.overhead, "seed": it.seed, "backend": it.backend})))
    });
    out.failures.truncate(1);
    rep.absorb("large", out);
}

pub fn replay(sub: &str, case: &Value) -> Result<(), String> {
    let mut st = Stats::new();
    match sub {
        "batch" | "hugebatch" => check_batch(&from_json(case), &mut st),
        "adversarial" => check(&from_json(case), &mut st),
        "smallk" => check_smallk(&from_json(case), &mut st),
        "large" => check_large(
            &LargeItem {
                k: case["k"].as_u64().unwrap() as u32,
                s: case["s"].as_u64().unwrap() as u32,
                overhead: case["overhead"].as_u64().unwrap() as u32,
                seed: case["seed"].as_u64().unwrap(),
                backend: case["backend"].as_u64().unwrap() as u8,
            },
            &mut st,
        ),
        _ => check(&from_json(case), &mut st),
    }
}

//! C04 — encoding symbols are byte-exact RFC 6330 symbols.
//!
//! direct:      reference C = solution of A*C = D by plain GF(256) elimination, expected repair
//!              symbol = Enc[K', C, Tuple[K', X + K' - K]]; compared with the crate's packets.
//! certificate: the crate's intermediate symbols (hook) are checked against all L constraint
//!              rows evaluated by the reference; repair payloads are recomputed from them with
//!              the reference Tuple/Enc. Works for any K up to 56403.
//! tables:      SHA-256 of V0..V3 and Table 2 against /verif/golden/tables.json; Deg probe.

use crate::codec::{build_block, block_cfg, data_class_from, make_data, repair_esi, symbols_of, Build, BUILDS};
use crate::reference as rf;
use crate::util::{fnv_u64s, run_items, run_sharded, sha256_hex, simple_failure, Failure, Report, SplitMix, Stats, SubOutcome, Tier, VERIF_DIR};
use crate::Ctx;
use proptest::prelude::*;
use serde_json::{json, Value};
use std::time::Instant;

#[derive(Debug, Clone)]
pub struct Case {
    k: u32,
    t: usize,
    class: u64,
    seed: u64,
    build: u64,
    esi_seed: u64,
}

fn k_pool(max_kp: u32) -> Vec<u32> {
    let mut ks: Vec<u32> = (1..=30).collect();
    for r in rf::tables().t2.iter() {
        if r.0 <= max_kp {
            ks.push(r.0);
            ks.push(r.0 - 1);
            ks.push(r.0 + 1);
        }
    }
    ks.sort_unstable();
    ks.dedup();
    ks
}

fn strategy(max_kp: u32) -> impl Strategy<Value = Case> {
    let pool = k_pool(max_kp);
    let n = pool.len();
    (
        0..n,
        prop_oneof![4 => 1usize..=8, 2 => 9usize..=80, 1 => Just(128usize), 1 => Just(64usize)],
        0u64..5,
        any::<u64>(),
        0u64..6,
        any::<u64>(),
    )
        .prop_map(move |(ki, t, class, seed, build, esi_seed)| Case {
            k: pool[ki],
            // keep the reference solve affordable: T*L bounded
            t: if pool[ki] > 150 { t.min(16) } else { t },
            class,
            seed,
            build,
            esi_seed,
        })
}

fn esi_list(k: u32, seed: u64, n_random: usize) -> Vec<u32> {
    let pr = rf::params(k);
    let mut rng = SplitMix::new(seed);
    let mut v: Vec<u32> = (k..k + 21).collect();
    v.push((1 << 24) - 1);
    v.push((1 << 24) - 2);
    // the ESI whose ISI is 2^24 + K' - K - 1 is exactly the largest ESI; also the smallest repair
    for _ in 0..n_random {
        v.push(repair_esi(rng.next_u64(), rng.next_u64(), k));
    }
    let _ = pr;
    v.sort_unstable();
    v.dedup();
    v
}

/// Fetch repair packets for a sorted list of ESIs using as few calls as possible is not the
/// point here: one call per ESI (window consistency is C18's business).
fn repair_payload(enc: &raptorq::SourceBlockEncoder, k: u32, esi: u32) -> Result<Vec<u8>, String> {
    let p = enc.repair_packets(esi - k, 1);
    if p.len() != 1 {
        return Err(format!("repair_packets({}, 1) returned {} packets", esi - k, p.len()));
    }
    if p[0].payload_id().encoding_symbol_id() != esi {
        return Err(format!("repair packet carries ESI {} instead of {esi}", p[0].payload_id().encoding_symbol_id()));
    }
    Ok(p[0].data().to_vec())
}

fn check_direct(c: &Case, st: &mut Stats) -> Result<(), String> {
    let k = c.k;
    let pr = rf::params(k);
    let data = make_data(data_class_from(c.class), c.seed, k as usize * c.t);
    let src = symbols_of(&data, c.t);
    let cref = rf::intermediate_symbols(&pr, &src)
        .ok_or_else(|| format!("reference: constraint matrix for K'={} is singular", pr.kp))?;
    let cfg = block_cfg(k as usize, c.t);
    let how = BUILDS[(c.build % 6) as usize];
    let enc = build_block(how, 3, &cfg, &data);
    st.class(&format!("build:{how:?}"));
    st.class_if(k < pr.kp, "padding symbols present");
    // source packets
    let sp = enc.source_packets();
    if sp.len() != k as usize {
        return Err(format!("K={k}: {} source packets", sp.len()));
    }
    for (i, p) in sp.iter().enumerate() {
        if p.payload_id().encoding_symbol_id() != i as u32 || p.payload_id().source_block_number() != 3 || p.data() != &src[i][..] {
            return Err(format!("K={k} T={}: source packet {i} does not carry source symbol {i}", c.t));
        }
    }
    // intermediate symbols themselves
    let cc = enc.verif_intermediate_symbols();
    if cc != cref {
        let i = (0..cref.len()).find(|&i| cc.get(i) != Some(&cref[i])).unwrap_or(0);
        return Err(format!("K={k} T={} {how:?}: intermediate symbol {i} differs from the unique solution of A*C=D", c.t));
    }
    for esi in esi_list(k, c.esi_seed, 16) {
        let isi = esi + (pr.kp - k);
        let want = rf::enc(&pr, &cref, isi);
        let got = repair_payload(&enc, k, esi)?;
        let (d, ..) = rf::tuple(&pr, isi);
        if d >= 2 && k < pr.kp {
            st.nt(fnv_u64s(&[k as u64, c.t as u64, esi as u64]));
        }
        st.eval();
        if got != want {
            return Err(format!(
                "K={k} (K'={}) T={} {how:?}: repair ESI {esi} (ISI {isi}) differs from Enc[K', C, Tuple[K', {isi}]]",
                pr.kp, c.t
            ));
        }
    }
    st.sample(|| json!({"K": k, "K'": pr.kp, "T": c.t, "build": format!("{how:?}"), "data": format!("{:?}", data_class_from(c.class)), "esis": esi_list(k, c.esi_seed, 3)}));
    Ok(())
}

// --- certificate mode -------------------------------------------------------------------------

#[derive(Debug, Clone)]
pub struct CertItem {
    k: u32,
    t: usize,
    build: Build,
    seed: u64,
}

fn check_certificate(it: &CertItem, st: &mut Stats) -> Result<(), String> {
    let k = it.k;
    let pr = rf::params(k);
    let data = make_data(crate::codec::DataClass::Random, it.seed, k as usize * it.t);
    let src = symbols_of(&data, it.t);
    let cfg = block_cfg(k as usize, it.t);
    let enc = build_block(it.build, 0, &cfg, &data);
    let cc = enc.verif_intermediate_symbols();
    rf::check_intermediate(&pr, &cc, &src).map_err(|m| format!("K={k} (K'={}) {:?}: {m}", pr.kp, it.build))?;
    st.class(&format!("build:{:?}", it.build));
    st.class_if(k > 10_000, "K>10000");
    for esi in esi_list(k, it.seed ^ 0x5555, 24) {
        let isi = esi + (pr.kp - k);
        let want = rf::enc(&pr, &cc, isi);
        let got = repair_payload(&enc, k, esi)?;
        st.eval();
        let (d, ..) = rf::tuple(&pr, isi);
        if d >= 2 && k < pr.kp {
            st.nt(fnv_u64s(&[k as u64, it.t as u64, esi as u64]));
        }
        if got != want {
            return Err(format!("K={k} (K'={}) {:?}: repair ESI {esi} (ISI {isi}) differs from Enc over the certified intermediate symbols", pr.kp, it.build));
        }
    }
    // source packets
    for (i, p) in enc.source_packets().iter().enumerate() {
        if p.data() != &src[i][..] || p.payload_id().encoding_symbol_id() != i as u32 {
            return Err(format!("K={k}: source packet {i} wrong"));
        }
    }
    st.sample(|| json!({"K": k, "K'": pr.kp, "T": it.t, "build": format!("{:?}", it.build)}));
    Ok(())
}

fn cert_items(ctx: &Ctx) -> Vec<CertItem> {
    let mut rng = SplitMix::new(crate::util::mix(ctx.seed, 404));
    let mut items = vec![];
    let kps: Vec<u32> = rf::tables().t2.iter().map(|r| r.0).collect();
    match ctx.tier {
        Tier::Quick => {
            for k in [56403u32, 56402, 55844, 30000, 10000, 9999, 5000, 2000, 1001, 1000, 999, 501, 300, 260, 251, 250, 249, 101] {
                items.push(CertItem { k, t: 2, build: Build::New, seed: rng.next_u64() });
            }
            // every block size of Table 2 (a change confined to a few K' is otherwise a lottery)
            for (i, &kp) in kps.iter().enumerate() {
                let _ = i;
                for build in [Build::Planned, Build::UnplannedSparse] {
                    items.push(CertItem { k: kp, t: 1, build, seed: rng.next_u64() });
                }
            }
            // the smallest K of every row (maximal number of padding symbols) and one K inside it
            for w in kps.windows(2) {
                let (lo, hi) = (w[0] + 1, w[1]);
                if lo < hi {
                    items.push(CertItem { k: lo, t: 1, build: if rng.below(2) == 0 { Build::Planned } else { Build::UnplannedSparse }, seed: rng.next_u64() });
                    if hi - lo >= 2 {
                        let mid = lo + 1 + rng.below((hi - lo - 1) as u64) as u32;
                        items.push(CertItem { k: mid, t: 1, build: Build::New, seed: rng.next_u64() });
                    }
                }
            }
            for _ in 0..12 {
                let k = 1 + rng.below(20000) as u32;
                items.push(CertItem { k, t: 1 + rng.below(4) as usize, build: if rng.below(2) == 0 { Build::UnplannedSparse } else { Build::Planned }, seed: rng.next_u64() });
            }
        }
        Tier::Thorough => {
            for &kp in &kps {
                items.push(CertItem { k: kp, t: 2, build: Build::UnplannedSparse, seed: rng.next_u64() });
                if kp > 10 {
                    let k = kp - 1 - rng.below((kp - 1).min(40) as u64) as u32;
                    items.push(CertItem { k, t: 1 + rng.below(3) as usize, build: Build::New, seed: rng.next_u64() });
                }
            }
        }
    }
    items
}

// --- tables -----------------------------------------------------------------------------------

pub fn table_check() -> SubOutcome {
    let started = Instant::now();
    let mut st = Stats::new();
    let mut failures: Vec<Failure> = vec![];
    let (vb, tb) = rf::table_bytes();
    let (vh, th) = (sha256_hex(&vb), sha256_hex(&tb));
    let path = format!("{VERIF_DIR}/golden/tables.json");
    match std::fs::read_to_string(&path).ok().and_then(|t| serde_json::from_str::<Value>(&t).ok()) {
        Some(g) => {
            st.evals(2);
            if g["v_tables_sha256"].as_str() != Some(&vh) {
                failures.push(simple_failure("tables", format!("V0..V3 digest {vh} differs from the pinned {}", g["v_tables_sha256"]), "tables:v".into(), Value::Null));
            }
            if g["table2_sha256"].as_str() != Some(&th) {
                failures.push(simple_failure("tables", format!("Table 2 digest {th} differs from the pinned {}", g["table2_sha256"]), "tables:t2".into(), Value::Null));
            }
        }
        None => {
            failures.push(simple_failure("tables", format!("golden file {path} missing or unreadable (computed: V {vh}, T2 {th})"), "tables:golden-missing".into(), Value::Null));
        }
    }
    // Deg against the reference's own copy of the distribution table, all 2^20 inputs, three W
    for w in [17u32, 29, 56951] {
        for v in 0..(1u32 << 20) {
            if raptorq::verif::deg(v, w) != rf::deg(v, w) {
                failures.push(simple_failure("tables", format!("Deg[{v}] with W={w}: {} vs RFC {}", raptorq::verif::deg(v, w), rf::deg(v, w)), "tables:deg".into(), json!({"v": v, "w": w})));
                break;
            }
        }
        st.evals(1 << 20);
    }
    // Rand against the reference on a spread of inputs (the tables are shared, the indexing is not)
    let mut rng = SplitMix::new(5);
    for _ in 0..200_000 {
        let (y, i, m) = (rng.next_u64() as u32, rng.below(8) as u32, 1 + rng.below(70000) as u32);
        st.eval();
        if raptorq::verif::rand(y, i, m) != rf::rand(y, i, m) {
            failures.push(simple_failure("tables", format!("Rand[{y},{i},{m}] differs from the RFC definition"), "tables:rand".into(), json!({"y": y, "i": i, "m": m})));
            break;
        }
    }
    st.sample(|| json!({"v_tables_sha256": vh, "table2_sha256": th}));
    failures.truncate(1);
    SubOutcome { stats: st, failures, wall_s: started.elapsed().as_secs_f64() }
}

fn to_json(c: &Case) -> Value {
    json!({"k": c.k, "t": c.t, "class": c.class, "seed": c.seed, "build": c.build, "esi_seed": c.esi_seed})
}

fn signature(_c: &Case, msg: &str) -> String {
    let kind = if msg.contains("panic") {
        "panic"
    } else if msg.contains("intermediate symbol") {
        "intermediate"
    } else if msg.contains("repair ESI") {
        "repair"
    } else if msg.contains("source packet") {
        "source"
    } else {
        "other"
    };
    format!("direct:{kind}")
}

pub fn run(ctx: &Ctx, rep: &mut Report) {
    rep.rule = "direct: generated (K from {1..30} U {K', K'-1, K'+1 : K' <= 300 (quick) / 1500 (thorough)}, T in 1..=80/128, data class, construction in {new, with_encoding_plan, unplanned dense/sparse, plan generated on dense/sparse}); reference intermediate symbols by plain GF(256) Gaussian elimination of the RFC constraint matrix; source packets, intermediate symbols and repair payloads for ESIs {K..K+20, 16 drawn from near/uniform/far classes, 2^24-2, 2^24-1} compared byte for byte. certificate: crate intermediate symbols for every one of the 477 block sizes of Table 2, for the smallest K of every row (maximal padding) and one K inside every row (both tiers) and further K up to 56403 checked against all L reference constraint rows, repair payloads recomputed with the reference Tuple/Enc. tables: SHA-256 pins, Deg on all 2^20 inputs, Rand on 2e5 inputs. Non-trivial = repair symbol with tuple degree d >= 2 on a block with padding (K < K'); distinct by (K, T, ESI).".into();
    rep.assumptions.push("V0..V3 and Table 2 are trusted as of the pinned commit (digests in golden/tables.json); no second source exists offline".into());
    rep.assumptions.push("beyond K' = 1500 invertibility of A is not re-proved by a reference solve; a C that satisfies all L relations is the RFC's C provided A is invertible (shown by the solver succeeding and by C06 for all 477 K')".into());
    rep.absorb("tables", table_check());
    let max_kp = ctx.tier.pick(300u32, 1500);
    let n = ctx.tier.pick(12_000u64, 60_000);
    rep.absorb(
        "direct",
        run_sharded("C04", "direct", ctx.seed, n, 32, move || strategy(max_kp), check_direct, to_json, signature),
    );
    let items = cert_items(ctx);
    let mut out = run_items(&items, |it, st| {
        let r = match crate::util::catch(|| check_certificate(it, st)) {
            Ok(r) => r,
            Err(p) => Err(format!("K={}: panic while building / certifying the encoder: {p}", it.k)),
        };
        r.map_err(|m| {
            simple_failure("certificate", m.clone(), format!("certificate:{}", if m.contains("relation") { "constraint" } else { "repair" }), json!({"k": it.k, "t": it.t, "build": format!("{:?}", it.build), "seed": it.seed}))
        })
    });
    out.failures.truncate(1);
    rep.absorb("certificate", out);
}

fn build_by_name(s: &str) -> Build {
    BUILDS.iter().copied().find(|b| format!("{b:?}") == s).unwrap_or(Build::New)
}

pub fn replay(sub: &str, case: &Value) -> Result<(), String> {
    let mut st = Stats::new();
    match sub {
        "direct" => check_direct(
            &Case {
                k: case["k"].as_u64().unwrap() as u32,
                t: case["t"].as_u64().unwrap() as usize,
                class: case["class"].as_u64().unwrap(),
                seed: case["seed"].as_u64().unwrap(),
                build: case["build"].as_u64().unwrap(),
                esi_seed: case["esi_seed"].as_u64().unwrap(),
            },
            &mut st,
        ),
        "certificate" => check_certificate(
            &CertItem {
                k: case["k"].as_u64().unwrap() as u32,
                t: case["t"].as_u64().unwrap() as usize,
                build: build_by_name(case["build"].as_str().unwrap_or("New")),
                seed: case["seed"].as_u64().unwrap(),
            },
            &mut st,
        ),
        "tables" => {
            let o = table_check();
            match o.failures.first() {
                Some(f) => Err(f.message.clone()),
                None => Ok(()),
            }
        }
        _ => Err(format!("unknown sub-check {sub}")),
    }
}

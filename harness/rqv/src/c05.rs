//! C05 — object partitioning and source packet layout follow RFC 6330 4.4.1.2.

use crate::codec::{data_class_from, make_data, DataClass};
use crate::reference as rf;
use crate::util::{catch, fnv_u64s, run_items, run_sharded, simple_failure, Report, SplitMix, Stats, Tier};
use crate::Ctx;
use proptest::prelude::*;
use raptorq::{Decoder, Encoder, EncodingPacket, ObjectTransmissionInformation, SourceBlockDecoder};
use serde_json::{json, Value};

#[derive(Debug, Clone, PartialEq)]
pub struct Case {
    al: usize,
    /// T / Al
    tu: usize,
    n: usize,
    kt: usize,
    z: usize,
    /// bytes in the last symbol, 1..=T
    r: usize,
    class: u64,
    seed: u64,
}

impl Case {
    fn t(&self) -> usize {
        self.tu * self.al
    }
    fn f(&self) -> usize {
        (self.kt - 1) * self.t() + self.r
    }
}

fn strategy() -> impl Strategy<Value = Case> {
    (
        prop_oneof![Just(1usize), Just(2usize), Just(3usize), Just(4usize), Just(8usize)],
        1usize..=24,
        any::<u64>(),
        prop_oneof![6 => 1usize..=90, 1 => 120usize..=135, 1 => 250usize..=700],
        any::<u64>(),
        any::<u64>(),
        0u64..5,
        any::<u64>(),
        0u8..4,
    )
        .prop_map(|(al, tu, rn, kt, rz, rr, class, seed, bias)| {
            // bias towards (T/Al) mod N != 0 and Kt mod Z != 0
            let mut n = 1 + (rn % tu as u64) as usize;
            if bias & 1 == 1 && tu > 2 {
                // pick an N that does not divide T/Al if one exists
                for cand in (2..tu).map(|d| 2 + ((d - 2) + (rn % tu as u64) as usize) % (tu - 2)) {
                    if tu % cand != 0 {
                        n = cand;
                        break;
                    }
                }
            }
            // one case in eight: up to the 8-bit maximum of 255 blocks
            let zmax = if (rz >> 40) % 8 == 0 { kt.min(255) } else { kt.min(12) };
            let mut z = 1 + (rz % zmax as u64) as usize;
            if bias & 2 == 2 && zmax > 2 {
                for cand in (2..=zmax).map(|d| 2 + ((d - 2) + (rz % zmax as u64) as usize) % (zmax - 1)) {
                    if kt % cand != 0 {
                        z = cand;
                        break;
                    }
                }
            }
            let t = tu * al;
            let r = if rr % 3 == 0 { t } else { 1 + (rr % t as u64) as usize };
            Case { al, tu, n, kt, z, r, class, seed }
        })
}

/// Kt across 2^16 (and up to 2^17 and beyond), Z near the 8-bit maximum so that blocks stay small.
fn strategy_large() -> impl Strategy<Value = Case> {
    (
        prop_oneof![3 => 65_000usize..=68_500, 2 => 60_000usize..=140_000, 1 => 131_000usize..=132_500, 1 => 30_000usize..=66_000],
        prop_oneof![3 => 200usize..=255, 1 => 128usize..=255, 1 => Just(255usize)],
        prop_oneof![Just((1usize, 1usize)), Just((1, 2)), Just((4, 1)), Just((4, 2)), Just((2, 3))],
        any::<u64>(),
        any::<u64>(),
    )
        .prop_map(|(kt, z, (al, tu), rr, seed)| {
            let t = al * tu;
            let n = 1 + (rr % tu as u64) as usize;
            let r = if rr % 3 == 0 { t } else { 1 + ((rr >> 8) % t as u64) as usize };
            Case { al, tu, n, kt, z, r, class: rr % 5, seed }
        })
}

/// Wide symbols, many sub-blocks, large alignments: T up to 65535, N across 255/256/257 and up
/// to T/Al, Al up to 255, on objects of a few symbols.
fn strategy_wide() -> impl Strategy<Value = Case> {
    (
        prop_oneof![Just(1usize), Just(2), Just(4), Just(8), Just(16), Just(32), Just(64), Just(128), Just(255), Just(3), Just(7)],
        any::<u64>(),
        any::<u64>(),
        1usize..=14,
        1usize..=4,
        any::<u64>(),
        0u64..5,
        any::<u64>(),
    )
        .prop_map(|(al, rt, rn, kt, z, rr, class, seed)| {
            let tu_max = 65535 / al;
            let tu = match rt % 8 {
                0 => tu_max,
                1 => (tu_max / 2).max(1),
                2 => [255usize, 256, 257, 258][(rt >> 8) as usize % 4].min(tu_max),
                3 => [511usize, 512, 513, 1024, 4096, 4097][(rt >> 8) as usize % 6].min(tu_max),
                4 => 1 + ((rt >> 8) % 40) as usize,
                _ => 1 + ((rt >> 8) % tu_max as u64) as usize,
            }
            .clamp(1, tu_max);
            let n = match rn % 6 {
                0 => 1,
                1 => tu,
                2 => [255usize, 256, 257, 300][(rn >> 8) as usize % 4].min(tu),
                3 => 1 + ((rn >> 8) % tu.min(16) as u64) as usize,
                _ => 1 + ((rn >> 8) % tu as u64) as usize,
            };
            let t = tu * al;
            let r = if rr % 3 == 0 { t } else { 1 + ((rr >> 4) % t as u64) as usize };
            Case { al, tu, n, kt, z: z.min(kt), r, class, seed }
        })
}

fn check(c: &Case, st: &mut Stats) -> Result<(), String> {
    let (t, f) = (c.t(), c.f());
    // position-coded (any misplacement changes a value), random, and - one case in ten - all-zero
    // contents: blocks with identical bytes must still get their own numbers and positions
    let data = make_data(data_class_from(if c.class < 3 { 4 } else if c.class == 4 && c.seed % 2 == 0 { 1 } else { 0 }), c.seed, f);
    let want = rf::object_layout(&data, t, c.z, c.n, c.al);
    let (kl, ks, zl, zs) = rf::partition(c.kt as u64, c.z as u64);
    let (tl, ts, nl, ns) = rf::partition(c.tu as u64, c.n as u64);
    let c_sub = c.n > 1 && tl != ts;
    let c_blk = c.z > 1 && kl != ks;
    let c_pad = f % t != 0;
    st.class_if(c_sub, "N>1 with TL != TS");
    st.class_if(c_blk, "Z>1 with KL != KS");
    st.class_if(c_pad, "F mod T != 0");
    st.class_if(c.n > 1, "N>1");
    st.class_if(c.z > 1, "Z>1");
    st.class_if(c.z > 128, "Z>128");
    st.class_if(c.kt > 65535, "Kt >= 2^16");
    st.class_if(t > 4096, "T > 4096");
    st.class_if(c.n > 255, "N > 255");
    st.class_if(c.al > 8, "Al > 8");
    if c_sub || c_blk || c_pad {
        st.nt(fnv_u64s(&[f as u64, t as u64, c.z as u64, c.n as u64, c.al as u64]));
    }
    st.sample(|| json!({"F": f, "T": t, "Z": c.z, "N": c.n, "Al": c.al, "Kt": c.kt, "partition_blocks": [kl, ks, zl, zs], "partition_subblocks": [tl, ts, nl, ns]}));

    // the library's Partition function
    let got = raptorq::partition(c.kt as u32, c.z as u32);
    if (got.0 as u64, got.1 as u64, got.2 as u64, got.3 as u64) != (kl, ks, zl, zs) {
        return Err(format!("partition({}, {}) = {got:?}, RFC Partition gives {:?}", c.kt, c.z, (kl, ks, zl, zs)));
    }
    let got = raptorq::partition(c.tu as u32, c.n as u32);
    if (got.0 as u64, got.1 as u64, got.2 as u64, got.3 as u64) != (tl, ts, nl, ns) {
        return Err(format!("partition({}, {}) = {got:?}, RFC Partition gives {:?}", c.tu, c.n, (tl, ts, nl, ns)));
    }
    let cfg = ObjectTransmissionInformation::new(f as u64, t as u16, c.z as u8, c.n as u16, c.al as u8);
    // block offsets
    let offs = raptorq::calculate_block_offsets(&data, &cfg);
    let mut start = 0usize;
    if offs.len() != c.z {
        return Err(format!("calculate_block_offsets: {} blocks, expected Z={}", offs.len(), c.z));
    }
    for (zi, &(s, e)) in offs.iter().enumerate() {
        let k = if (zi as u64) < zl { kl } else { ks } as usize;
        if (s, e) != (start, start + k * t) {
            return Err(format!("calculate_block_offsets: block {zi} spans [{s},{e}), RFC layout gives [{},{})", start, start + k * t));
        }
        start += k * t;
    }
    // source packets of the whole object
    let enc = Encoder::new(&data, cfg);
    if enc.get_config() != cfg {
        return Err("encoder does not report the configuration it was given".into());
    }
    let pkts = enc.get_encoded_packets(0);
    let total: usize = want.iter().map(|b| b.len()).sum();
    if pkts.len() != total {
        return Err(format!("{} source packets, expected sum of K = {total}", pkts.len()));
    }
    let mut idx = 0;
    for (zi, blk) in want.iter().enumerate() {
        for (m, sym) in blk.iter().enumerate() {
            let p = &pkts[idx];
            idx += 1;
            if p.payload_id().source_block_number() as usize != zi || p.payload_id().encoding_symbol_id() as usize != m {
                return Err(format!(
                    "packet {idx}: id (SBN {}, ESI {}), expected (SBN {zi}, ESI {m})",
                    p.payload_id().source_block_number(),
                    p.payload_id().encoding_symbol_id()
                ));
            }
            if p.data().len() != t {
                return Err(format!("packet (SBN {zi}, ESI {m}) has {} payload bytes, expected T={t}", p.data().len()));
            }
            if p.data() != &sym[..] {
                return Err(format!(
                    "F={f} T={t} Z={} N={} Al={}: payload of (SBN {zi}, ESI {m}) differs from the RFC 4.4.1.2 layout",
                    c.z, c.n, c.al
                ));
            }
        }
    }
    // the decoder inverts exactly this layout: (a) all source packets
    let mut dec = Decoder::new(cfg);
    let mut out = None;
    for (i, p) in pkts.iter().enumerate() {
        if out.is_some() {
            return Err(format!("decoder answered after {i} of {total} source packets"));
        }
        out = dec.decode(p.clone());
    }
    if out.as_deref() != Some(&data[..]) {
        return Err(format!("F={f} T={t} Z={} N={} Al={}: decoding all source packets does not return the object", c.z, c.n, c.al));
    }
    // (a') the same through the streaming interface, source packets in reverse order
    let mut decs = Decoder::new(cfg);
    for p in pkts.iter().rev() {
        decs.add_new_packet(p.clone());
    }
    if decs.get_result().as_deref() != Some(&data[..]) {
        return Err(format!("F={f} T={t} Z={} N={} Al={}: add_new_packet of all source packets + get_result does not return the object", c.z, c.n, c.al));
    }
    // (b) an erasure pattern repaired by repair packets
    let mut rng = SplitMix::new(c.seed ^ 0x77);
    let mut dec = Decoder::new(cfg);
    let mut out = None;
    let mut feed: Vec<EncodingPacket> = vec![];
    for blk in enc.get_block_encoders() {
        let src = blk.source_packets();
        let k = src.len();
        let erase = 1 + rng.below(k.min(4) as u64) as usize;
        let mut order: Vec<usize> = (0..k).collect();
        rng.shuffle(&mut order);
        let erased: Vec<usize> = order[..erase].to_vec();
        for (i, p) in src.into_iter().enumerate() {
            if !erased.contains(&i) {
                feed.push(p);
            }
        }
        feed.extend(blk.repair_packets(rng.below(500) as u32, erase as u32 + 2));
    }
    rng.shuffle(&mut feed);
    for p in feed {
        if let Some(o) = dec.decode(p) {
            out = Some(o);
        }
    }
    match out {
        Some(o) if o == data => {}
        Some(_) => return Err(format!("F={f} T={t} Z={} N={} Al={}: decoding with erasures returns different bytes", c.z, c.n, c.al)),
        None => st.class("erasure decode undecodable with 2 spare symbols per block (counted, not judged)"),
    }
    // (c) per-block decoder returns the zero-padded block in object order
    let zi = rng.below(c.z as u64) as usize;
    let k = want[zi].len();
    let mut bd = SourceBlockDecoder::new(zi as u8, &cfg, (k * t) as u64);
    let got = bd.decode(enc.get_block_encoders()[zi].source_packets());
    let (s, e) = offs[zi];
    let mut blk_bytes: Vec<u8> = data[s.min(f)..e.min(f)].to_vec();
    blk_bytes.resize(k * t, 0);
    if got.as_deref() != Some(&blk_bytes[..]) {
        return Err(format!("block decoder for block {zi} does not return the zero-padded block bytes"));
    }
    // (d) the same block from one batch with erased source symbols and enough repair symbols to
    // enter the decoder's binary-only fast path (>= K + H distinct symbols in one call)
    let pr = rf::params(k as u32);
    let mut batch = enc.get_block_encoders()[zi].source_packets();
    let erase = 1 + rng.below(k.min(3) as u64) as usize;
    for _ in 0..erase {
        let victim = rng.below(batch.len() as u64) as usize;
        batch.remove(victim);
    }
    batch.extend(enc.get_block_encoders()[zi].repair_packets(rng.below(300) as u32, erase as u32 + pr.h + 3));
    rng.shuffle(&mut batch);
    let mut bd2 = SourceBlockDecoder::new(zi as u8, &cfg, (k * t) as u64);
    match bd2.decode(batch) {
        Some(bytes) if bytes == blk_bytes => st.class("batch decode with overhead >= H"),
        Some(_) => return Err(format!("F={f} T={t} Z={} N={} Al={}: block decoder for block {zi}, fed one batch with {erase} source symbols erased and H+3 extra repair symbols, does not return the block in the RFC layout", c.z, c.n, c.al)),
        None => st.class("batch decode undecodable (counted, not judged)"),
    }
    Ok(())
}

fn to_json(c: &Case) -> Value {
    json!({"al": c.al, "tu": c.tu, "n": c.n, "kt": c.kt, "z": c.z, "r": c.r, "class": c.class, "seed": c.seed})
}

fn from_json(v: &Value) -> Case {
    let g = |k: &str| v[k].as_u64().unwrap();
    Case { al: g("al") as usize, tu: g("tu") as usize, n: g("n") as usize, kt: g("kt") as usize, z: g("z") as usize, r: g("r") as usize, class: g("class"), seed: g("seed") }
}

fn signature(_: &Case, msg: &str) -> String {
    let kind = if msg.contains("panic") {
        "panic"
    } else if msg.contains("get_result") {
        "decoder"
    } else if msg.contains("partition(") {
        "partition"
    } else if msg.contains("calculate_block_offsets") {
        "offsets"
    } else if msg.contains("payload of") || msg.contains("payload bytes") || msg.contains("packet ") {
        "packets"
    } else if msg.contains("decod") {
        "decoder"
    } else {
        "other"
    };
    format!("layout:{kind}")
}

pub fn run(ctx: &Ctx, rep: &mut Report) {
    rep.rule = "generated (F, T, Z, N, Al, data): Al in {1,2,3,4,8}, T/Al in 1..=24, N in 1..=T/Al, Kt in 1..=90 (weighted; also 120..135 and 250..700), Z in 1..=min(Kt,12) and in one case of eight 1..=min(Kt,255), F=(Kt-1)*T+r, biased to Kt mod Z != 0 and (T/Al) mod N != 0; data position-coded, random or (one case in ten) all-zero. Plus a group of large objects (Kt in 30 000..140 000 weighted to 65 000..68 500, Z in 128..=255, T <= 8: running symbol indices beyond 2^16). Plus a group of wide symbols (Al in {1,2,3,4,7,8,16,32,64,128,255}, T up to 65535, N across 255/256/257 and up to T/Al, objects of at most 14 symbols). Plus an exhaustive sweep of all (Kt <= 8 quick / 20 thorough, Z <= Kt, T/Al <= 5 quick / 8 thorough, N <= T/Al, Al in {1,4}). Oracle: reference layout by index formula (Partition, block/sub-block/symbol offsets) for every source packet's (SBN, ESI, payload); partition() and calculate_block_offsets() against the reference; then the decoder is fed all source packets, an erasure pattern + repair packets, one block decoder with all source packets, and one block decoder with a single batch (erasures + H+3 extra repair symbols, which enters the binary-only fast path), and must return the object / block. Non-trivial = N>1 with TL != TS, or Z>1 with KL != KS, or F mod T != 0; distinct by (F,T,Z,N,Al).".into();
    let n = ctx.tier.pick(200_000u64, 2_000_000);
    rep.absorb("generated", run_sharded("C05", "generated", ctx.seed, n, 32, strategy, check, to_json, signature));
    // large objects: more than 2^16 symbols in total, spread over many blocks of a few hundred
    // symbols (nothing in the small groups makes a running symbol index or byte offset large)
    let n = ctx.tier.pick(32u64, 600);
    rep.absorb("large", run_sharded("C05", "large", ctx.seed, n, 16, strategy_large, check, to_json, signature));
    let n = ctx.tier.pick(1_500u64, 30_000);
    rep.absorb("wide", run_sharded("C05", "wide", ctx.seed, n, 32, strategy_wide, check, to_json, signature));
    // exhaustive small sweep
    let (kt_max, tu_max) = match ctx.tier {
        Tier::Quick => (8usize, 5usize),
        Tier::Thorough => (20, 8),
    };
    let mut items = vec![];
    let mut rng = SplitMix::new(crate::util::mix(ctx.seed, 55));
    for al in [1usize, 4] {
        for tu in 1..=tu_max {
            for n in 1..=tu {
                for kt in 1..=kt_max {
                    for z in 1..=kt {
                        for r in [1usize, tu * al] {
                            items.push(Case { al, tu, n, kt, z, r, class: rng.below(5), seed: rng.next_u64() });
                        }
                    }
                }
            }
        }
    }
    let mut out = run_items(&items, |c, st| {
        st.eval();
        let r = match catch(|| check(c, st)) {
            Ok(r) => r,
            Err(p) => Err(format!("panic: {p}")),
        };
        r.map_err(|m| simple_failure("sweep", m.clone(), signature(c, &m), to_json(c)))
    });
    out.failures.truncate(1);
    rep.absorb("sweep", out);
    let _ = DataClass::Random;
}

pub fn replay(_sub: &str, case: &Value) -> Result<(), String> {
    check(&from_json(case), &mut Stats::new())
}

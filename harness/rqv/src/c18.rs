//! C18 — the repair stream is addressed consistently (fountain property).

use crate::codec::{build_block, build_from, block_cfg, make_data, symbols_of, DataClass};
use crate::reference as rf;
use crate::util::{fnv_u64s, run_sharded, Report, SplitMix, Stats};
use crate::Ctx;
use proptest::prelude::*;
use raptorq::{Encoder, ObjectTransmissionInformation, SourceBlockEncoder, SourceBlockEncodingPlan};
use serde_json::{json, Value};
use std::collections::HashSet;

#[derive(Debug, Clone)]
pub struct Case {
    k: u32,
    t: usize,
    s1: u32,
    n1: u32,
    /// second window start offset relative to s1 (may overlap) and length
    d2: i64,
    n2: u32,
    build: u64,
    seed: u64,
    z: usize,
    repair_per_block: u32,
}

fn strategy(kmax: u32) -> impl Strategy<Value = Case> {
    (
        prop_oneof![3 => 1u32..=60, 2 => 1u32..=kmax, 1 => Just(10u32), 1 => Just(11u32)],
        prop_oneof![20 => 1usize..=8, 20 => 1usize..=40, 1 => prop_oneof![Just(65535usize), Just(4097usize), Just(32768usize)]],
        any::<u64>(),
        prop_oneof![6 => 0u32..=40, 1 => 0u32..=1500],
        -40i64..=40,
        0u32..=40,
        0u64..6,
        any::<u64>(),
        1usize..=5,
        prop_oneof![5 => 0u32..=6, 1 => 0u32..=300],
        0u8..4,
    )
        .prop_map(|(k, t, r, n1, d2, n2, build, seed, z, rpb, smode)| {
            let max_start = (1u32 << 24) - k; // K + s + n <= 2^24
            let s1 = match smode {
                0 => (r % 51) as u32,
                1 => (r % (max_start as u64 + 1)) as u32,
                2 => max_start.saturating_sub(n1 + (r % 3) as u32),
                _ => (r % 5000) as u32,
            }
            .min(max_start - n1.min(max_start));
            // wide symbols on small blocks and short windows only (bounded work per case)
            let (k, n1, rpb) = if t > 2000 { (1 + k % 10, n1.min(40), rpb.min(6)) } else { (k, n1, rpb) };
            let s1 = s1.min(max_start);
            Case { k, t, s1, n1, d2, n2, build, seed, z, repair_per_block: rpb }
        })
}

/// Windows and per-block repair counts longer than 2^16 (and 2^17) packets on small blocks.
fn strategy_long() -> impl Strategy<Value = Case> {
    (
        prop_oneof![3 => 1u32..=40, 1 => Just(10u32), 1 => Just(11u32)],
        1usize..=4,
        any::<u64>(),
        prop_oneof![3 => 65_530u32..=65_560, 2 => 60_000u32..=140_000, 1 => 131_060u32..=131_090],
        prop_oneof![Just(0i64), -40i64..=40, Just(i64::MAX)],
        0u32..=40,
        0u64..6,
        any::<u64>(),
        1usize..=2,
        prop_oneof![3 => 0u32..=6, 1 => 65_530u32..=66_000],
        0u8..4,
    )
        .prop_map(|(k, t, r, n1, d2, n2, build, seed, z, rpb, smode)| {
            let max_start = (1u32 << 24) - k;
            let s1 = match smode {
                0 => 0,
                1 => (r % (max_start as u64 + 1)) as u32,
                2 => max_start.saturating_sub(n1 + (r % 3) as u32),
                _ => (r % 5000) as u32,
            }
            .min(max_start - n1.min(max_start));
            // i64::MAX stands for "second window over the tail of the first"
            let d2 = if d2 == i64::MAX { n1 as i64 - 1 - (r % 30) as i64 } else { d2 };
            Case { k, t, s1, n1, d2, n2, build, seed, z, repair_per_block: rpb }
        })
}

fn check(c: &Case, st: &mut Stats) -> Result<(), String> {
    let k = c.k;
    let pr = rf::params(k);
    let data = make_data(DataClass::Random, c.seed, k as usize * c.t);
    let cfg = block_cfg(k as usize, c.t);
    let sbn = (c.seed % 256) as u8;
    let how = build_from(c.build);
    let enc = build_block(how, sbn, &cfg, &data);
    let max_start = (1u32 << 24) - k;
    let s1 = c.s1.min(max_start);
    let n1 = c.n1.min(max_start - s1);
    let s2 = (s1 as i64 + c.d2).clamp(0, max_start as i64) as u32;
    let n2 = c.n2.min(max_start - s2);
    let overlap = s2 < s1 + n1 && s1 < s2 + n2 && n1 > 0 && n2 > 0;
    st.class_if(overlap, "overlapping windows");
    st.class_if(k < pr.kp, "padding symbols present");
    st.class_if(s1 + n1 == max_start && n1 > 0, "window ends at ESI 2^24-1");
    st.class_if(s1 > 1 << 20, "far window");
    st.class_if(n1 > 65536, "window longer than 2^16 packets");
    st.class_if(c.repair_per_block > 65536, "object list with more than 2^16 repair packets per block");
    if overlap && s1 > 0 && k < pr.kp {
        st.nt(fnv_u64s(&[k as u64, c.t as u64, s1 as u64, n1 as u64, s2 as u64, n2 as u64]));
    }
    st.sample(|| json!({"K": k, "T": c.t, "window1": [s1, n1], "window2": [s2, n2], "build": format!("{how:?}"), "Z": c.z}));

    let w1 = enc.repair_packets(s1, n1);
    if w1.len() != n1 as usize {
        return Err(format!("repair_packets({s1}, {n1}) returned {} packets", w1.len()));
    }
    for (i, p) in w1.iter().enumerate() {
        let esi = k + s1 + i as u32;
        if p.payload_id().encoding_symbol_id() != esi || p.payload_id().source_block_number() != sbn {
            return Err(format!(
                "K={k}: packet {i} of window ({s1},{n1}) has id (SBN {}, ESI {}), expected (SBN {sbn}, ESI {esi})",
                p.payload_id().source_block_number(),
                p.payload_id().encoding_symbol_id()
            ));
        }
        if p.data().len() != c.t {
            return Err(format!("repair payload length {} != T={}", p.data().len(), c.t));
        }
        let single = enc.repair_packets(s1 + i as u32, 1);
        if single.len() != 1 || single[0] != *p {
            return Err(format!("K={k} T={} {how:?}: window ({s1},{n1}) packet {i} differs from the single-packet request at repair index {}", c.t, s1 + i as u32));
        }
    }
    // overlapping windows agree
    let w2 = enc.repair_packets(s2, n2);
    if w2.len() != n2 as usize {
        return Err(format!("repair_packets({s2}, {n2}) returned {} packets", w2.len()));
    }
    for (j, q) in w2.iter().enumerate() {
        let idx = s2 + j as u32;
        if idx >= s1 && idx < s1 + n1 && *q != w1[(idx - s1) as usize] {
            return Err(format!("K={k} {how:?}: windows ({s1},{n1}) and ({s2},{n2}) disagree at repair index {idx}"));
        }
    }
    // plans for equal block sizes are interchangeable
    let plan1 = SourceBlockEncodingPlan::generate(k as u16);
    let plan2 = SourceBlockEncodingPlan::generate(k as u16);
    if plan1 != plan2 {
        return Err(format!("two plans generated for K={k} are not equal"));
    }
    let e1 = SourceBlockEncoder::with_encoding_plan(sbn, &cfg, &data, &plan1);
    let e2 = SourceBlockEncoder::with_encoding_plan(sbn, &cfg, &data, &plan2);
    let e3 = SourceBlockEncoder::new(sbn, &cfg, &data);
    // (== is only demanded between encoders built from equal plans: the physical arrangement
    // of the intermediate symbols may legitimately differ between matrix back-ends)
    if e1 != e2 || e1 != e3 {
        return Err(format!("K={k}: encoders from two generated plans and the cached plan are not all equal"));
    }
    for e in [&e1, &e2, &e3] {
        if e.repair_packets(s1, n1) != w1 || e.source_packets() != enc.source_packets() {
            return Err(format!("K={k}: encoders from different plan instances ({how:?} vs generated/cached plan) emit different packets"));
        }
    }
    // largest ESI producible
    let last = enc.repair_packets(max_start - 1, 1);
    if last.len() != 1 || last[0].payload_id().encoding_symbol_id() != (1 << 24) - 1 {
        return Err(format!("K={k}: ESI 2^24-1 not producible"));
    }
    st.class("ESI 2^24-1 produced");

    // per-object packet list
    if c.z >= 1 && k <= 80 {
        let z = c.z.min(k as usize);
        let mut rng = SplitMix::new(c.seed ^ 0xF00D);
        let extra = rng.below(c.t as u64) as usize;
        let f = (k as usize * c.t).saturating_sub(extra).max(1);
        // contents: random, constant, or periodic with the period of one (large) block, so that
        // consecutive blocks can be byte-identical - packet IDs must not depend on the contents
        let obj = match (c.seed >> 9) % 6 {
            0 | 1 => make_data(DataClass::Random, c.seed ^ 1, f),
            2 => make_data(DataClass::Zero, c.seed ^ 1, f),
            3 => vec![(c.seed >> 20) as u8 | 0x80; f],
            n => {
                let period = if n == 4 { (k as usize).div_ceil(z) * c.t } else { c.t };
                let one = make_data(DataClass::Random, c.seed ^ 1, period.max(1));
                (0..f).map(|i| one[i % one.len()]).collect()
            }
        };
        st.class_if((c.seed >> 9) % 6 >= 2 && z > 1, "object with Z>1 and constant or block-periodic contents");
        let ocfg = ObjectTransmissionInformation::new(f as u64, c.t as u16, z as u8, 1, 1);
        let oenc = Encoder::new(&obj, ocfg);
        let r = c.repair_per_block;
        let pk = oenc.get_encoded_packets(r);
        let layout = rf::object_layout(&obj, c.t, z, 1, 1);
        let mut idx = 0usize;
        let mut ids = HashSet::new();
        for (zi, blk) in layout.iter().enumerate() {
            let kk = blk.len() as u32;
            for e in 0..kk + r {
                let p = pk.get(idx).ok_or_else(|| format!("packet list too short ({} packets)", pk.len()))?;
                idx += 1;
                if p.payload_id().source_block_number() as usize != zi || p.payload_id().encoding_symbol_id() != e {
                    return Err(format!(
                        "object packet list (Z={z}, r={r}): position {idx} has (SBN {}, ESI {}), expected (SBN {zi}, ESI {e})",
                        p.payload_id().source_block_number(),
                        p.payload_id().encoding_symbol_id()
                    ));
                }
                if p.data().len() != c.t {
                    return Err("payload length != T in the object packet list".into());
                }
                if e < kk && p.data() != &blk[e as usize][..] {
                    return Err(format!("object packet list: (SBN {zi}, ESI {e}) does not carry the source symbol"));
                }
                if !ids.insert((zi, e)) {
                    return Err("duplicate payload ID in the object packet list".into());
                }
            }
            // repair part equals the block encoder's own window (0, r)
            let be = &oenc.get_block_encoders()[zi];
            let win = be.repair_packets(0, r);
            if pk[idx - r as usize..idx] != win[..] {
                return Err(format!("object packet list: repair packets of block {zi} differ from repair_packets(0, {r})"));
            }
        }
        if idx != pk.len() {
            return Err(format!("object packet list has {} packets, expected {idx}", pk.len()));
        }
        st.class_if(z > 1, "object with Z>1");
        let _ = symbols_of;
    }
    Ok(())
}

fn to_json(c: &Case) -> Value {
    json!({"k": c.k, "t": c.t, "s1": c.s1, "n1": c.n1, "d2": c.d2, "n2": c.n2, "build": c.build, "seed": c.seed, "z": c.z, "rpb": c.repair_per_block})
}

fn from_json(v: &Value) -> Case {
    let g = |k: &str| v[k].as_u64().unwrap();
    Case { k: g("k") as u32, t: g("t") as usize, s1: g("s1") as u32, n1: g("n1") as u32, d2: v["d2"].as_i64().unwrap(), n2: g("n2") as u32, build: g("build"), seed: g("seed"), z: g("z") as usize, repair_per_block: g("rpb") as u32 }
}

fn signature(_: &Case, msg: &str) -> String {
    let kind = if msg.contains("panic") {
        "panic"
    } else if msg.contains("single-packet") {
        "window-vs-single"
    } else if msg.contains("disagree") {
        "overlap"
    } else if msg.contains("has id") || msg.contains("position") {
        "ids"
    } else if msg.contains("plan") {
        "plans"
    } else if msg.contains("Enc[") {
        "rfc-symbol"
    } else {
        "other"
    };
    format!("repair:{kind}")
}

pub fn run(ctx: &Ctx, rep: &mut Report) {
    rep.rule = "generated (K <= 300 quick / 5000 thorough, T <= 40 (one case in forty: T in {4097, 32768, 65535} on K <= 10), construction, window (s1,n1) from {0..50} / uniform up to 2^24-K / ending exactly at ESI 2^24-1, second window at offset -40..40, n <= 40 (one window in seven up to 1500 packets long), object with Z <= 5 blocks, contents random / constant / periodic with the period of one block or one symbol (so that consecutive blocks can be byte-identical), and r <= 6 (one in six: up to 300) repair packets per block). A second group ('longwindows') has K <= 40, T <= 4 and windows of 60 000..140 000 packets (weighted to 65 530..65 560 and 131 060..131 090), the second window over the tail of the first, and object lists with up to 66 000 repair packets per block. Oracle (metamorphic + structural): window == concatenation of single-packet requests; overlapping windows agree; payload IDs are (block, K+s+i); encoders from two generated plans, the cached plan and the generated construction are == and emit identical packets; get_encoded_packets(r) is, block by block, ESI 0..K-1 then K..K+r-1 with distinct IDs, payload length T and source payloads per the reference layout; ESI 2^24-1 is producible. Non-trivial = overlapping windows with s > 0 on a block with padding; distinct by (K,T,windows).".into();
    let kmax = ctx.tier.pick(300u32, 5000);
    let n = ctx.tier.pick(50_000u64, 400_000);
    rep.absorb("windows", run_sharded("C18", "windows", ctx.seed, n, 32, move || strategy(kmax), check, to_json, signature));
    let n = ctx.tier.pick(64u64, 1500);
    rep.absorb("longwindows", run_sharded("C18", "longwindows", ctx.seed, n, 16, strategy_long, check, to_json, signature));
}

pub fn replay(_sub: &str, case: &Value) -> Result<(), String> {
    check(&from_json(case), &mut Stats::new())
}

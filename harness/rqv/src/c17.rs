//! C17 — the shared encoding-plan cache is transparent and bounded under concurrency.
//! The harness owns the schedule: every thread parks before each critical section of the cache
//! (lookup, insert) and the scheduler releases exactly one thread per step, in the generated (or
//! exhaustively enumerated) order. Invariants are checked after every critical section.

use crate::codec::{block_cfg, make_data, DataClass};
use crate::util::{catch, fnv_u64s, simple_failure, Failure, Report, SplitMix, Stats, SubOutcome, Tier};
use crate::Ctx;
use proptest::prelude::*;
use proptest::strategy::ValueTree;
use proptest::test_runner::{Config, RngSeed, TestRunner};
use raptorq::verif::verif_cache as vc;
use raptorq::{SourceBlockEncoder, SourceBlockEncodingPlan};
use serde_json::{json, Value};
use std::cell::Cell;
use std::collections::{BTreeSet, HashMap};
use std::sync::{Arc, Condvar, Mutex, OnceLock};
use std::time::Instant;

// --- the controlled scheduler ---------------------------------------------------------------------

#[derive(Default)]
struct State {
    turn: Option<usize>,
    parked: Vec<bool>,
    finished: Vec<bool>,
    /// (point, k) where each thread is parked
    at: Vec<(u8, u16)>,
    /// log of passed points: (thread, point, k)
    log: Vec<(usize, u8, u16)>,
    panicked: Option<String>,
}

struct Sched {
    st: Mutex<State>,
    cv: Condvar,
}

static SCHED: Mutex<Option<Arc<Sched>>> = Mutex::new(None);
/// also park at yield point 3 (plan obtained, its Arc still held by the requesting thread)
static PARK_HOLDING: std::sync::atomic::AtomicBool = std::sync::atomic::AtomicBool::new(false);

thread_local! {
    static TID: Cell<Option<usize>> = const { Cell::new(None) };
}

fn current_sched() -> Option<Arc<Sched>> {
    SCHED.lock().unwrap_or_else(|p| p.into_inner()).clone()
}

/// Installed as the crate's yield callback.
fn yield_hook(point: u8, k: u16) {
    let Some(id) = TID.with(|t| t.get()) else { return };
    let Some(s) = current_sched() else { return };
    let mut g = s.st.lock().unwrap_or_else(|p| p.into_inner());
    g.log.push((id, point, k));
    // scheduling decisions are only needed in front of the two critical sections
    // (0: before the lookup, 2: before the insert); code between them is thread-local
    // optionally also while the thread still holds the plan it obtained (point 3): the
    // reference count of a plan is shared state too
    if point == 1 || (point == 3 && !PARK_HOLDING.load(std::sync::atomic::Ordering::SeqCst)) {
        return;
    }
    park(&s, g, id, point, k);
}

fn park(s: &Sched, mut g: std::sync::MutexGuard<'_, State>, id: usize, point: u8, k: u16) {
    g.parked[id] = true;
    g.at[id] = (point, k);
    s.cv.notify_all();
    while g.turn != Some(id) {
        g = s.cv.wait(g).unwrap_or_else(|p| p.into_inner());
    }
    g.turn = None;
    g.parked[id] = false;
}

fn data_for(k: u16) -> Vec<u8> {
    make_data(DataClass::Random, 0xC17 + k as u64, k as usize * 2)
}

/// Baseline encoders built without the cache, one per size (computed once).
fn baseline(k: u16) -> Arc<(SourceBlockEncoder, SourceBlockEncoder)> {
    static B: OnceLock<Mutex<HashMap<u16, Arc<(SourceBlockEncoder, SourceBlockEncoder)>>>> = OnceLock::new();
    let m = B.get_or_init(|| Mutex::new(HashMap::new()));
    if let Some(b) = m.lock().unwrap().get(&k) {
        return b.clone();
    }
    let data = data_for(k);
    let cfg = block_cfg(k as usize, 2);
    let planned = SourceBlockEncoder::with_encoding_plan(0, &cfg, &data, &SourceBlockEncodingPlan::generate(k));
    let unplanned = SourceBlockEncoder::verif_new_unplanned(0, &cfg, &data, 250).expect("singular");
    let b = Arc::new((planned, unplanned));
    m.lock().unwrap().insert(k, b.clone());
    b
}

#[derive(Debug, Clone)]
pub struct Case {
    /// requests per thread
    reqs: Vec<Vec<u16>>,
    /// scheduling choices: at step i release runnable thread number (choice mod #runnable)
    schedule: Vec<u8>,
    /// sizes requested single-threaded before the concurrent part (to pre-fill the cache)
    prefill: Vec<u16>,
    /// threads also park while holding the plan they obtained (yield point 3)
    hold: bool,
}

#[derive(Default, Debug)]
pub struct Outcome {
    steps: usize,
    /// number of runnable threads at each step (for exhaustive enumeration)
    branching: Vec<usize>,
    double_miss: bool,
    evictions: u32,
    hit_after_eviction: bool,
    max_len: usize,
}

fn check_cache_invariants(ctx_msg: &str) -> Result<(Vec<(u16, u16)>, Vec<u16>), String> {
    let (plans, order, poisoned) = vc::snapshot();
    if poisoned {
        return Err(format!("{ctx_msg}: the cache lock is poisoned"));
    }
    if plans.len() > vc::CAPACITY {
        return Err(format!("{ctx_msg}: cache holds {} plans, capacity is {}", plans.len(), vc::CAPACITY));
    }
    for &(key, count) in &plans {
        if key != count {
            return Err(format!("{ctx_msg}: plan stored under key {key} was generated for {count} symbols"));
        }
    }
    let keys: BTreeSet<u16> = plans.iter().map(|p| p.0).collect();
    let oset: BTreeSet<u16> = order.iter().copied().collect();
    if oset.len() != order.len() {
        return Err(format!("{ctx_msg}: eviction queue contains duplicates: {order:?}"));
    }
    if oset != keys {
        return Err(format!("{ctx_msg}: eviction queue {order:?} is not a permutation of the cached keys {keys:?}"));
    }
    Ok((plans, order))
}

/// Executes one case under the controlled scheduler. Must not run concurrently with another.
fn execute(c: &Case) -> Result<Outcome, String> {
    vc::clear();
    vc::set_yield(None);
    PARK_HOLDING.store(c.hold, std::sync::atomic::Ordering::SeqCst);
    // single-threaded prefill (not scheduled)
    for &k in &c.prefill {
        let e = SourceBlockEncoder::new(0, &block_cfg(k as usize, 2), &data_for(k));
        if e != baseline(k).0 {
            return Err(format!("prefill: SourceBlockEncoder::new for K={k} differs from the encoder built without the cache"));
        }
    }
    check_cache_invariants("after prefill")?;
    let n = c.reqs.len();
    let sched = Arc::new(Sched {
        st: Mutex::new(State { turn: None, parked: vec![false; n], finished: vec![false; n], at: vec![(0, 0); n], log: vec![], panicked: None }),
        cv: Condvar::new(),
    });
    *SCHED.lock().unwrap_or_else(|p| p.into_inner()) = Some(sched.clone());
    vc::set_yield(Some(yield_hook));
    let results: Arc<Mutex<Vec<Vec<(u16, SourceBlockEncoder)>>>> = Arc::new(Mutex::new(vec![vec![]; n]));
    let mut handles = vec![];
    for (id, reqs) in c.reqs.iter().cloned().enumerate() {
        let s = sched.clone();
        let results = results.clone();
        handles.push(std::thread::spawn(move || {
            TID.with(|t| t.set(Some(id)));
            let r = catch(|| {
                for k in reqs {
                    let e = SourceBlockEncoder::new(0, &block_cfg(k as usize, 2), &data_for(k));
                    results.lock().unwrap()[id].push((k, e));
                }
            });
            let mut g = s.st.lock().unwrap_or_else(|p| p.into_inner());
            if let Err(p) = r {
                g.panicked = Some(format!("thread {id} panicked: {p}"));
            }
            g.finished[id] = true;
            s.cv.notify_all();
        }));
    }
    let mut out = Outcome::default();
    let mut err: Option<String> = None;
    let evicted_before: BTreeSet<u16> = BTreeSet::new();
    let mut evicted = evicted_before;
    let mut prev_keys: BTreeSet<u16> = vc::snapshot().0.iter().map(|p| p.0).collect();
    loop {
        // wait until every thread is parked or finished
        let mut g = sched.st.lock().unwrap_or_else(|p| p.into_inner());
        while !(0..n).all(|i| g.parked[i] || g.finished[i]) {
            g = sched.cv.wait(g).unwrap_or_else(|p| p.into_inner());
        }
        if let Some(p) = g.panicked.take() {
            err = Some(p);
        }
        // all threads quiescent: the cache is between critical sections
        let now = match check_cache_invariants(&format!("after step {}", out.steps)) {
            Ok((plans, _)) => plans.iter().map(|p| p.0).collect::<BTreeSet<u16>>(),
            Err(m) => {
                err.get_or_insert(m);
                prev_keys.clone()
            }
        };
        out.max_len = out.max_len.max(now.len());
        for gone in prev_keys.difference(&now) {
            evicted.insert(*gone);
            out.evictions += 1;
        }
        prev_keys = now;
        // double miss: two threads parked in front of the insert for the same size
        let waiting_insert: Vec<u16> = (0..n).filter(|&i| g.parked[i] && g.at[i].0 == 2).map(|i| g.at[i].1).collect();
        let mut ws = waiting_insert.clone();
        ws.sort_unstable();
        if ws.windows(2).any(|w| w[0] == w[1]) {
            out.double_miss = true;
        }
        let runnable: Vec<usize> = (0..n).filter(|&i| g.parked[i] && !g.finished[i]).collect();
        if runnable.is_empty() {
            break;
        }
        let choice = *c.schedule.get(out.steps).unwrap_or(&0) as usize % runnable.len();
        out.branching.push(runnable.len());
        out.steps += 1;
        let id = runnable[choice];
        // a hit on a size that had been evicted earlier and re-inserted
        g.turn = Some(id);
        sched.cv.notify_all();
        // wait until that thread parks again or finishes
        while g.turn == Some(id) || !(g.parked[id] || g.finished[id]) {
            g = sched.cv.wait(g).unwrap_or_else(|p| p.into_inner());
        }
        drop(g);
        if err.is_some() {
            // let everything drain without further checks
        }
    }
    for h in handles {
        let _ = h.join();
    }
    vc::set_yield(None);
    let log = std::mem::take(&mut sched.st.lock().unwrap_or_else(|p| p.into_inner()).log);
    *SCHED.lock().unwrap_or_else(|p| p.into_inner()) = None;
    if let Some(m) = err {
        return Err(m);
    }
    // hit after eviction: a request for an evicted size that went lookup -> done without a miss
    for w in log.windows(2) {
        if w[0].0 == w[1].0 && w[0].1 == 0 && w[1].1 == 3 && evicted.contains(&w[0].2) {
            out.hit_after_eviction = true;
        }
    }
    // (1) every encoder equals the one built without the cache
    let results = results.lock().unwrap();
    for (id, rs) in results.iter().enumerate() {
        if rs.len() != c.reqs[id].len() {
            return Err(format!("thread {id} completed {} of {} requests", rs.len(), c.reqs[id].len()));
        }
        for (k, e) in rs {
            let b = baseline(*k);
            if *e != b.0 {
                return Err(format!("thread {id}: SourceBlockEncoder::new for K={k} differs (==) from with_encoding_plan(generate({k})) built without the cache"));
            }
            if e.source_packets() != b.1.source_packets() || e.repair_packets(0, 4) != b.1.repair_packets(0, 4) || e.repair_packets(70000, 2) != b.1.repair_packets(70000, 2) {
                return Err(format!("thread {id}: packets of the encoder for K={k} differ from the unplanned encoder"));
            }
        }
    }
    check_cache_invariants("at the end")?;
    Ok(out)
}

static SERIAL: Mutex<()> = Mutex::new(());

fn run_case(c: &Case, st: &mut Stats) -> Result<Outcome, String> {
    let _g = SERIAL.lock().unwrap_or_else(|p| p.into_inner());
    let o = execute(c)?;
    st.eval();
    st.class_if(o.double_miss, "double miss on the same size before either insert");
    st.class_if(o.evictions > 0, "insert that evicts");
    st.class_if(o.hit_after_eviction, "hit after eviction and re-insertion");
    st.class_if(o.max_len == vc::CAPACITY, "cache at capacity");
    if o.double_miss || o.evictions > 0 {
        let mut v: Vec<u64> = c.schedule.iter().map(|&x| x as u64).collect();
        v.extend(c.reqs.iter().flatten().map(|&k| k as u64 + 1000));
        v.extend(c.prefill.iter().map(|&k| k as u64 + 100000));
        st.nt(fnv_u64s(&v));
    }
    Ok(o)
}

fn case_json(c: &Case) -> Value {
    json!({"reqs": c.reqs, "schedule": c.schedule, "prefill": c.prefill, "hold": c.hold})
}

fn case_from(v: &Value) -> Case {
    let arr = |x: &Value| -> Vec<u16> { x.as_array().map(|a| a.iter().map(|y| y.as_u64().unwrap() as u16).collect()).unwrap_or_default() };
    Case {
        reqs: v["reqs"].as_array().unwrap().iter().map(arr).collect(),
        schedule: v["schedule"].as_array().unwrap().iter().map(|y| y.as_u64().unwrap() as u8).collect(),
        prefill: arr(&v["prefill"]),
        hold: v.get("hold").and_then(|x| x.as_bool()).unwrap_or(false),
    }
}

fn sig(msg: &str) -> String {
    let kind = if msg.contains("panicked") {
        "panic"
    } else if msg.contains("capacity") {
        "capacity"
    } else if msg.contains("duplicates") || msg.contains("permutation") {
        "queue-bijection"
    } else if msg.contains("was generated for") {
        "wrong-plan-for-key"
    } else if msg.contains("differs") || msg.contains("differ") {
        "encoder-differs"
    } else if msg.contains("poisoned") {
        "poisoned"
    } else {
        "other"
    };
    format!("cache:{kind}")
}

/// Exhaustive enumeration of all interleavings of the critical sections for one request shape.
fn enumerate_shape(reqs: &[Vec<u16>], prefill: &[u16], hold: bool, st: &mut Stats, failures: &mut Vec<Failure>, cap: usize) -> usize {
    let mut prefix: Vec<u8> = vec![];
    let mut count = 0usize;
    loop {
        let c = Case { reqs: reqs.to_vec(), schedule: prefix.clone(), prefill: prefill.to_vec(), hold };
        let o = match run_case(&c, st) {
            Ok(o) => o,
            Err(m) => {
                if failures.is_empty() {
                    failures.push(simple_failure("schedule", m.clone(), sig(&m), case_json(&c)));
                }
                return count;
            }
        };
        count += 1;
        if count == 1 {
            st.sample(|| json!({"reqs": reqs, "prefill": prefill, "hold": hold, "schedule": "all interleavings", "steps": o.steps}));
        }
        if count >= cap {
            st.class("exhaustive enumeration truncated by the cap");
            return count;
        }
        // next schedule in lexicographic order over the branching structure
        let mut full: Vec<u8> = prefix.clone();
        full.resize(o.steps, 0);
        let mut i = o.steps;
        loop {
            if i == 0 {
                return count;
            }
            i -= 1;
            if (full[i] as usize) + 1 < o.branching[i] {
                full[i] += 1;
                full.truncate(i + 1);
                break;
            }
        }
        prefix = full;
    }
}

#[derive(Debug, Clone)]
struct Gen {
    threads: usize,
    sizes: Vec<u16>,
    schedule: Vec<u8>,
    prefill_n: usize,
    prefill_seed: u64,
}

/// Block sizes from distinct rows of Table 2 (K' <= 3000, so that plans stay cheap) that share the
/// value of one column (0: J, 1: S, 2: H, 3: W); for each row its K' and a K just below it.
fn table_family(column: usize, pick: usize) -> Vec<u16> {
    static T: OnceLock<Vec<(u32, u32, u32, u32, u32, u32)>> = OnceLock::new();
    let t = T.get_or_init(raptorq::verif::table2_with_p1);
    let val = |r: &(u32, u32, u32, u32, u32, u32)| match column {
        0 => r.1,
        1 => r.2,
        2 => r.3,
        _ => r.4,
    };
    let small: Vec<usize> = (0..t.len()).filter(|&i| t[i].0 <= 3000).collect();
    // rows (among the small ones) that have a partner with the same value
    let with_partner: Vec<usize> = small.iter().copied().filter(|&i| small.iter().any(|&j| j != i && val(&t[j]) == val(&t[i]))).collect();
    if with_partner.is_empty() {
        return vec![3, 5, 9, 12];
    }
    let i = with_partner[pick % with_partner.len()];
    let mut rows: Vec<usize> = small.iter().copied().filter(|&j| val(&t[j]) == val(&t[i])).collect();
    // keep the chosen row and up to three partners (the nearest ones for H, which is shared widely)
    rows.sort_by_key(|&j| (j as i64 - i as i64).abs());
    rows.truncate(4);
    let mut out = vec![];
    for j in rows {
        let kp = t[j].0 as u16;
        out.push(kp);
        let prev = if j == 0 { 0 } else { t[j - 1].0 as u16 };
        if kp - prev >= 2 {
            out.push(kp - 1);
        }
    }
    out
}

/// `wide`: the sizes are spread over the whole key range instead of 1..=120 - families of sizes
/// that agree modulo 256 / 512 / 1024 / 4096 (and, rarely, modulo 32768), so that a key that is
/// narrowed, hashed or compared on part of its bits makes two requested sizes collide.
fn random_strategy(evict: bool, wide: bool) -> impl Strategy<Value = Case> {
    (
        2usize..=4,
        proptest::collection::vec(any::<u16>(), 2..=if evict { 40 } else { 20 }),
        proptest::collection::vec(any::<u8>(), 0..120),
        if evict { 60usize..=90 } else { 0usize..=3 },
        any::<u64>(),
    )
        .prop_map(move |(threads, sizes, schedule, prefill_n, prefill_seed)| {
            let g = Gen { threads, sizes, schedule, prefill_n, prefill_seed };
            // distinct prefill sizes in 1..=120 (wide: 16 residues x 6 multiples of 256)
            let mut rng = SplitMix::new(g.prefill_seed);
            let mut pool: Vec<u16> = if wide && evict {
                let c0 = 1 + (g.prefill_seed >> 40) as u16 % 200;
                (0..16u16).flat_map(|c| (0..6u16).map(move |j| c0 + c + 256 * j)).collect()
            } else if wide && (g.prefill_seed >> 36) % 2 == 0 {
                // sizes from different rows of Table 2 that agree in one derived parameter
                // (J, S, H or W): a plan must never be shared or adapted across such rows
                table_family((g.prefill_seed >> 37) as usize % 4, (g.prefill_seed >> 40) as usize)
            } else if wide {
                let c = 1 + (g.prefill_seed >> 40) as u16 % 200;
                let mut a = vec![c, c + 256, c + 512, c + 1024, c + 4096, c + 1, c + 257];
                if (g.prefill_seed >> 32) % 16 == 0 {
                    a.push(c + 32768);
                }
                a
            } else {
                (1..=120).collect()
            };
            let pool_len = pool.len();
            rng.shuffle(&mut pool);
            let prefill: Vec<u16> = pool[..g.prefill_n.min(pool_len)].to_vec();
            // concurrent requests: from a small alphabet so that collisions are common; with
            // eviction: sizes that were prefilled early (already evicted) and fresh ones
            let alphabet: Vec<u16> = if evict {
                let mut a: Vec<u16> = prefill.iter().take(6).copied().collect();
                a.extend(pool[g.prefill_n.min(pool_len)..(g.prefill_n + 6).min(pool_len)].iter().copied());
                a
            } else if wide {
                pool.clone()
            } else {
                vec![3, 5, 9, 12]
            };
            let mut reqs: Vec<Vec<u16>> = vec![vec![]; g.threads];
            for (i, raw) in g.sizes.iter().enumerate() {
                if reqs[i % g.threads].len() < 6 {
                    reqs[i % g.threads].push(alphabet[(*raw as usize * alphabet.len()) >> 16]);
                }
            }
            reqs.retain(|r| !r.is_empty());
            Case { reqs, schedule: g.schedule, prefill, hold: g.prefill_seed % 4 == 0 }
        })
}

fn run_random(name: &str, seed: u64, n: u64, evict: bool, wide: bool) -> SubOutcome {
    let started = Instant::now();
    let mut st = Stats::new();
    let mut failures = vec![];
    let strat = random_strategy(evict, wide);
    let mut runner = TestRunner::new(Config { cases: n as u32, failure_persistence: None, rng_seed: RngSeed::Fixed(crate::util::derive_seed(seed, "C17", name, 0)), max_shrink_iters: 300, ..Config::default() });
    // driven manually (sequentially): cases must not overlap because the cache is process-wide
    for _ in 0..n {
        let mut tree = strat.new_tree(&mut runner).unwrap();
        let c = tree.current();
        if let Err(m) = run_case(&c, &mut st) {
            // shrink by hand with the value tree
            st.freeze();
            let mut best = (c.clone(), m.clone());
            let mut iters = 0;
            while iters < 300 && tree.simplify() {
                iters += 1;
                loop {
                    let cand = tree.current();
                    match run_case(&cand, &mut Stats::new()) {
                        Err(m2) => {
                            best = (cand, m2);
                            break;
                        }
                        Ok(_) => {
                            if !tree.complicate() {
                                break;
                            }
                        }
                    }
                    iters += 1;
                    if iters >= 300 {
                        break;
                    }
                }
            }
            failures.push(simple_failure(name, best.1.clone(), sig(&best.1), case_json(&best.0)));
            break;
        }
        st.sample(|| json!({"threads": c.reqs.len(), "reqs": c.reqs, "prefill_sizes": c.prefill.len(), "schedule_len": c.schedule.len()}));
    }
    SubOutcome { stats: st, failures, wall_s: started.elapsed().as_secs_f64() }
}

/// Uncontrolled stress: real threads, no scheduling; same invariants at the end.
fn stress(seed: u64, threads: usize, per_thread: usize) -> SubOutcome {
    let started = Instant::now();
    let _g = SERIAL.lock().unwrap_or_else(|p| p.into_inner());
    vc::clear();
    vc::set_yield(None);
    let mut st = Stats::new();
    let mut failures = vec![];
    let errs: Arc<Mutex<Vec<String>>> = Arc::new(Mutex::new(vec![]));
    let mut hs = vec![];
    for t in 0..threads {
        let errs = errs.clone();
        hs.push(std::thread::spawn(move || {
            let mut rng = SplitMix::new(crate::util::mix(seed, t as u64));
            for _ in 0..per_thread {
                let k = 1 + rng.below(100) as u16;
                let r = catch(|| SourceBlockEncoder::new(0, &block_cfg(k as usize, 2), &data_for(k)));
                match r {
                    Ok(e) => {
                        if e != baseline(k).0 {
                            errs.lock().unwrap().push(format!("stress: encoder for K={k} differs from the uncached one"));
                            return;
                        }
                    }
                    Err(p) => {
                        errs.lock().unwrap().push(format!("stress: thread panicked: {p}"));
                        return;
                    }
                }
            }
        }));
    }
    for h in hs {
        let _ = h.join();
    }
    st.evals((threads * per_thread) as u64);
    st.nt_enumerated(1);
    st.nt_enumerated(1);
    if let Some(m) = errs.lock().unwrap().first() {
        failures.push(simple_failure("stress", m.clone(), sig(m), json!({"seed": seed})));
    }
    if let Err(m) = check_cache_invariants("after the stress run") {
        failures.push(simple_failure("stress", m.clone(), sig(&m), json!({"seed": seed})));
    }
    failures.truncate(1);
    SubOutcome { stats: st, failures, wall_s: started.elapsed().as_secs_f64() }
}

pub fn run(ctx: &Ctx, rep: &mut Report) {
    rep.rule = "controlled schedules: 2-4 threads build block encoders through the process-wide plan cache; every thread parks before each of the cache's two critical sections (lookup, insert; hook yield points 0 and 2) and the harness's scheduler releases exactly one thread per step; for part of the shapes and a quarter of the generated cases threads additionally park while they still hold the plan they obtained (yield point 3), because a plan's reference count is shared state as well. (a) exhaustive: all interleavings of the critical sections for shapes 2 threads x 2 requests (all 16 size assignments over a 2-letter alphabet), 3 x 1 (all 8), 3 x 2 (selected assignments), 4 x 1 (the assignments distinct up to renaming; thorough also 4 threads with one 2-request thread), also with the cache pre-filled to capacity so that inserts evict; (b) generated: request lists over a small alphabet (collisions common) with generated schedules; (c) generated eviction histories: 60-90 distinct sizes pre-filled, then concurrent requests for already-evicted and fresh sizes. Invariants after every critical section: at most 64 plans, the eviction queue is a duplicate-free permutation of the key set, every plan's symbol count equals its key, lock not poisoned; at the end every encoder == the encoder built without the cache (with_encoding_plan(generate(k))) and emits the packets of the unplanned encoder. Non-trivial = schedule with a double miss on one size before either insert, or an insert that evicts; distinct by (requests, prefill, schedule).".into();
    rep.assumptions.push("all shared state of the cache lives behind one Mutex; between the critical sections a thread touches thread-local data and the reference count of the plan it holds, which is why part of the exploration also parks threads while they hold a plan; interleavings at that granularity cover all observable behaviours (std::sync::Mutex and Arc assumed correct)".into());
    rep.exhaustive = true;
    let started = Instant::now();
    let mut st = Stats::new();
    let mut failures: Vec<Failure> = vec![];
    let (a, b) = (5u16, 7u16);
    let mut shapes: Vec<(Vec<Vec<u16>>, Vec<u16>)> = vec![];
    // shapes explored with threads also parking while they hold a plan (yield point 3)
    let mut hold_shapes: Vec<(Vec<Vec<u16>>, Vec<u16>)> = vec![];
    // 2 threads x 2 requests: all assignments
    for m in 0..16u32 {
        let s = |bit: u32| if m >> bit & 1 == 0 { a } else { b };
        shapes.push((vec![vec![s(0), s(1)], vec![s(2), s(3)]], vec![]));
    }
    // 3 threads x 1 request
    for m in 0..8u32 {
        let s = |bit: u32| if m >> bit & 1 == 0 { a } else { b };
        shapes.push((vec![vec![s(0)], vec![s(1)], vec![s(2)]], vec![]));
    }
    // at capacity: 64 other sizes pre-filled, so every insert evicts; then a re-request
    let full: Vec<u16> = (20..84).collect();
    shapes.push((vec![vec![a, 20], vec![a, b]], full.clone()));
    shapes.push((vec![vec![a], vec![b], vec![20]], full.clone()));
    shapes.push((vec![vec![a, a], vec![20, a]], full.clone()));
    // 3 x 2
    shapes.push((vec![vec![a, b], vec![b, a], vec![a, a]], vec![]));
    // 4 threads x 1 request: the assignments distinct up to renaming threads and sizes
    shapes.push((vec![vec![a], vec![a], vec![a], vec![a]], vec![]));
    shapes.push((vec![vec![a], vec![a], vec![b], vec![b]], vec![]));
    if ctx.tier == Tier::Thorough {
        shapes.push((vec![vec![a], vec![a], vec![a], vec![b]], vec![]));
        shapes.push((vec![vec![a], vec![a], vec![b], vec![20]], full.clone()));
        shapes.push((vec![vec![a], vec![b], vec![21], vec![20]], full.clone()));
        shapes.push((vec![vec![a, a], vec![a], vec![a], vec![b]], vec![]));
        shapes.push((vec![vec![a, a], vec![a, a], vec![a, a]], vec![]));
        shapes.push((vec![vec![a, b], vec![a, b], vec![b, a]], full.clone()));
        shapes.push((vec![vec![a, 20], vec![21, a], vec![b, 20]], full.clone()));
    }
    // a thread holding the front entry of a full cache while another evicts it and a third asks again
    hold_shapes.push((vec![vec![20], vec![a], vec![20]], full.clone()));
    hold_shapes.push((vec![vec![a], vec![a], vec![b]], vec![]));
    hold_shapes.push((vec![vec![20, a], vec![a, 20]], full.clone()));
    if ctx.tier == Tier::Thorough {
        hold_shapes.push((vec![vec![20], vec![21], vec![a], vec![20]], full.clone()));
        hold_shapes.push((vec![vec![a, b], vec![b, a]], vec![]));
        hold_shapes.push((vec![vec![20, 21], vec![a, 20], vec![b]], full.clone()));
    }
    let cap = ctx.tier.pick(40_000usize, 400_000);
    let mut total = 0usize;
    for (hold, list) in [(false, &shapes), (true, &hold_shapes)] {
        for (reqs, prefill) in list {
            if !failures.is_empty() {
                break;
            }
            // (with the extra parking point the larger shapes have millions of interleavings:
            // they are explored up to a smaller cap, in lexicographic order of the schedule)
            total += enumerate_shape(reqs, prefill, hold, &mut st, &mut failures, if hold { cap / 8 } else { cap });
        }
    }
    st.class_n("schedules enumerated exhaustively", total as u64);
    st.class_n("request shapes", (shapes.len() + hold_shapes.len()) as u64);
    st.class_n("request shapes explored with threads parking while they hold a plan", hold_shapes.len() as u64);
    rep.absorb("exhaustive", SubOutcome { stats: st, failures, wall_s: started.elapsed().as_secs_f64() });
    rep.absorb("random", run_random("random", ctx.seed, ctx.tier.pick(5000, 60_000), false, false));
    rep.absorb("eviction", run_random("eviction", ctx.seed, ctx.tier.pick(600, 9_000), true, false));
    // the same two generators over sizes spread across the key range (families equal modulo
    // 256 / 512 / 1024 / 4096 / 32768): "any mix of block sizes" is not "sizes up to 120"
    rep.absorb("widekeys", run_random("widekeys", ctx.seed, ctx.tier.pick(400, 1_500), false, true));
    rep.absorb("widekeys-eviction", run_random("widekeys-eviction", ctx.seed, ctx.tier.pick(40, 150), true, true));
    if ctx.tier == Tier::Thorough {
        rep.absorb("stress", stress(ctx.seed, 16, 6000));
    } else {
        rep.absorb("stress", stress(ctx.seed, 8, 400));
    }
}

pub fn replay(_sub: &str, case: &Value) -> Result<(), String> {
    if case.get("reqs").is_none() {
        let o = stress(case["seed"].as_u64().unwrap_or(1), 8, 400);
        return match o.failures.first() {
            Some(f) => Err(f.message.clone()),
            None => Ok(()),
        };
    }
    run_case(&case_from(case), &mut Stats::new()).map(|_| ())
}

//! Shared encode/decode helpers for the codec properties.

use crate::util::SplitMix;
use raptorq::{
    ObjectTransmissionInformation, SourceBlockEncoder, SourceBlockEncodingPlan,
};

/// Data content classes used by several generators.
#[derive(Debug, Clone, Copy, PartialEq, Eq)]
pub enum DataClass {
    Random,
    Zero,
    Ones,
    OneHot,
    /// every byte a hash of its offset, so that any misplacement changes a value
    Position,
}

pub const DATA_CLASSES: [DataClass; 5] = [
    DataClass::Random,
    DataClass::Zero,
    DataClass::Ones,
    DataClass::OneHot,
    DataClass::Position,
];

pub fn make_data(class: DataClass, seed: u64, len: usize) -> Vec<u8> {
    let mut rng = SplitMix::new(seed);
    match class {
        DataClass::Random => rng.bytes(len),
        DataClass::Zero => vec![0u8; len],
        DataClass::Ones => vec![0xFFu8; len],
        DataClass::OneHot => {
            let mut v = vec![0u8; len];
            if len > 0 {
                let i = rng.below(len as u64) as usize;
                v[i] = 1 + rng.below(255) as u8;
            }
            v
        }
        DataClass::Position => (0..len)
            .map(|i| {
                let x = (i as u64).wrapping_mul(0x9E37_79B9_7F4A_7C15) ^ seed;
                ((x >> 32) ^ (x >> 11) ^ x) as u8 | 1
            })
            .collect(),
    }
}

pub fn data_class_from(i: u64) -> DataClass {
    DATA_CLASSES[(i % DATA_CLASSES.len() as u64) as usize]
}

/// How a block encoder is constructed.
#[derive(Debug, Clone, Copy, PartialEq, Eq, Hash)]
pub enum Build {
    /// `SourceBlockEncoder::new` (process-wide plan cache)
    New,
    /// `with_encoding_plan(SourceBlockEncodingPlan::generate(k))`
    Planned,
    /// direct solve on the dense matrix back-end (hook, threshold = u32::MAX)
    UnplannedDense,
    /// direct solve on the sparse matrix back-end (hook, threshold = 0)
    UnplannedSparse,
    /// plan generated on the dense back-end, then replayed
    PlannedDense,
    /// plan generated on the sparse back-end, then replayed
    PlannedSparse,
}

pub const BUILDS: [Build; 6] = [
    Build::New,
    Build::Planned,
    Build::UnplannedDense,
    Build::UnplannedSparse,
    Build::PlannedDense,
    Build::PlannedSparse,
];

pub fn build_from(i: u64) -> Build {
    BUILDS[(i % BUILDS.len() as u64) as usize]
}

/// Single-block configuration with N = 1, Al = 1.
pub fn block_cfg(k: usize, t: usize) -> ObjectTransmissionInformation {
    ObjectTransmissionInformation::new((k * t) as u64, t as u16, 1, 1, 1)
}

/// Builds a block encoder; `data.len()` must be a multiple of the symbol size.
pub fn build_block(
    how: Build,
    sbn: u8,
    cfg: &ObjectTransmissionInformation,
    data: &[u8],
) -> SourceBlockEncoder {
    let k = (data.len() / cfg.symbol_size() as usize) as u16;
    match how {
        Build::New => SourceBlockEncoder::new(sbn, cfg, data),
        Build::Planned => {
            let plan = SourceBlockEncodingPlan::generate(k);
            SourceBlockEncoder::with_encoding_plan(sbn, cfg, data, &plan)
        }
        Build::UnplannedDense => SourceBlockEncoder::verif_new_unplanned(sbn, cfg, data, u32::MAX)
            .expect("solver reported a singular encoding matrix (dense)"),
        Build::UnplannedSparse => SourceBlockEncoder::verif_new_unplanned(sbn, cfg, data, 0)
            .expect("solver reported a singular encoding matrix (sparse)"),
        Build::PlannedDense => {
            let plan = SourceBlockEncodingPlan::verif_generate(k, u32::MAX);
            SourceBlockEncoder::with_encoding_plan(sbn, cfg, data, &plan)
        }
        Build::PlannedSparse => {
            let plan = SourceBlockEncodingPlan::verif_generate(k, 0);
            SourceBlockEncoder::with_encoding_plan(sbn, cfg, data, &plan)
        }
    }
}

pub fn symbols_of(data: &[u8], t: usize) -> Vec<Vec<u8>> {
    data.chunks(t).map(|c| c.to_vec()).collect()
}

/// ESI classes shared by several generators: near (K..K+40), uniform 24-bit, far end.
pub fn repair_esi(class: u64, r: u64, k: u32) -> u32 {
    let max = (1u32 << 24) - 1;
    match class % 4 {
        0 => k + (r % 41) as u32,
        1 => k + (r % (max as u64 - k as u64 + 1)) as u32,
        2 => max - (r % 300) as u32,
        _ => k + (r % 5000) as u32,
    }
}

// ---------------------------------------------------------------------------------------------
// objects and packet pools (C01, C08)
// ---------------------------------------------------------------------------------------------

use raptorq::{Encoder, EncodingPacket};

#[derive(Debug, Clone)]
pub struct ObjectSpec {
    pub al: usize,
    /// T / Al
    pub tu: usize,
    pub z: usize,
    pub n: usize,
    pub kt: usize,
    /// bytes in the last symbol, 1..=T
    pub r: usize,
    pub class: u64,
    pub seed: u64,
}

impl ObjectSpec {
    pub fn t(&self) -> usize {
        self.tu * self.al
    }
    pub fn f(&self) -> usize {
        (self.kt - 1) * self.t() + self.r.clamp(1, self.t())
    }
    pub fn cfg(&self) -> ObjectTransmissionInformation {
        ObjectTransmissionInformation::new(
            self.f() as u64,
            self.t() as u16,
            self.z as u8,
            self.n as u16,
            self.al as u8,
        )
    }
    pub fn data(&self) -> Vec<u8> {
        make_data(data_class_from(self.class), self.seed, self.f())
    }
    pub fn to_json(&self) -> serde_json::Value {
        serde_json::json!({"al": self.al, "tu": self.tu, "z": self.z, "n": self.n, "kt": self.kt, "r": self.r, "class": self.class, "seed": self.seed})
    }
    pub fn from_json(v: &serde_json::Value) -> Self {
        let g = |k: &str| v[k].as_u64().unwrap();
        ObjectSpec { al: g("al") as usize, tu: g("tu") as usize, z: g("z") as usize, n: g("n") as usize, kt: g("kt") as usize, r: g("r") as usize, class: g("class"), seed: g("seed") }
    }
}

/// All source packets of every block plus, per block, repair packets from three ESI classes.
pub struct Pool {
    pub packets: Vec<EncodingPacket>,
    /// K per block
    pub ks: Vec<u32>,
    /// indices into `packets` of the source packets, per block
    pub source_idx: Vec<Vec<usize>>,
}

pub fn build_pool(enc: &Encoder, seed: u64, repair_per_block: impl Fn(u32) -> usize) -> Pool {
    let mut rng = SplitMix::new(seed ^ 0x9001);
    let mut packets = vec![];
    let mut ks = vec![];
    let mut source_idx = vec![];
    for blk in enc.get_block_encoders() {
        let src = blk.source_packets();
        let k = src.len() as u32;
        ks.push(k);
        let mut idx = vec![];
        for p in src {
            idx.push(packets.len());
            packets.push(p);
        }
        source_idx.push(idx);
        let mut esis = std::collections::BTreeSet::new();
        let want = repair_per_block(k);
        let mut guard = 0;
        while esis.len() < want && guard < want * 20 {
            guard += 1;
            esis.insert(repair_esi(rng.next_u64(), rng.next_u64(), k));
        }
        for e in esis {
            packets.extend(blk.repair_packets(e - k, 1));
        }
    }
    Pool { packets, ks, source_idx }
}

/// Map a raw 16-bit index monotonically onto 0..len.
pub fn map_index(raw: u16, len: usize) -> usize {
    ((raw as usize) * len) >> 16
}

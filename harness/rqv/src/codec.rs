//! shared encode/decode helpers

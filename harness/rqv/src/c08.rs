//! C08 — decoder outcome is independent of packet order, duplication and batching.
//! Stateful: a generated operation history is interpreted over several decoders at once.

use crate::codec::{build_pool, map_index, ObjectSpec};
use crate::util::{fnv64, fnv_u64s, run_sharded, Report, Stats};
use crate::Ctx;
use proptest::prelude::*;
use raptorq::{Decoder, Encoder, EncodingPacket, SourceBlockDecoder};
use serde_json::{json, Value};
use std::collections::BTreeSet;

#[derive(Debug, Clone, PartialEq)]
pub enum Op {
    /// deliver pool packet (raw index) to every decoder
    Deliver(u16),
    /// flush the per-block batch buffers through SourceBlockDecoder::decode(iter)
    Flush,
    /// replace the decoder under test by its clone, keep the original running alongside
    Clone,
    /// compare with the reference history (distinct set, ascending order, fresh decoder)
    Checkpoint,
}

#[derive(Debug, Clone)]
pub struct Case {
    spec: ObjectSpec,
    ops: Vec<Op>,
}

fn op_strategy() -> impl Strategy<Value = Op> {
    prop_oneof![
        20 => any::<u16>().prop_map(Op::Deliver),
        3 => Just(Op::Flush),
        1 => Just(Op::Clone),
        1 => Just(Op::Checkpoint),
    ]
}

fn spec_strategy() -> impl Strategy<Value = ObjectSpec> {
    (
        prop_oneof![Just((1usize, 1usize)), Just((1, 2)), Just((1, 5)), Just((2, 2)), Just((4, 3)), Just((8, 1)), Just((1, 16))],
        prop_oneof![8 => 1usize..=3, 1 => 4usize..=24],
        any::<u64>(),
        any::<u64>(),
        any::<u64>(),
    )
        .prop_map(|((al, tu), z, rk, rr, seed)| {
            // many blocks only with few symbols each, so that a 420-step history can complete them
            let kmax = if z > 3 { 4usize } else { 40usize };
            let kt = (z as u64 + rk % (kmax * z - z + 1) as u64) as usize;
            let t = al * tu;
            let r = if rr % 3 == 0 { t } else { 1 + ((rr >> 4) % t as u64) as usize };
            ObjectSpec { al, tu, z, n: 1 + ((rr >> 20) % tu.min(3) as u64) as usize, kt, r, class: rr % 5, seed }
        })
}

fn strategy() -> impl Strategy<Value = Case> {
    (spec_strategy(), proptest::collection::vec(op_strategy(), 0..420)).prop_map(|(spec, ops)| Case { spec, ops })
}

/// Answer of a fresh object decoder fed the distinct packets in ascending (SBN, ESI) order.
fn reference_object(cfg: raptorq::ObjectTransmissionInformation, pool: &[EncodingPacket], set: &BTreeSet<(u8, u32, usize)>) -> Option<Vec<u8>> {
    let mut d = Decoder::new(cfg);
    let mut out = None;
    for &(_, _, pi) in set {
        if let Some(o) = d.decode(pool[pi].clone()) {
            out = Some(o);
        }
    }
    out
}

fn reference_block(cfg: &raptorq::ObjectTransmissionInformation, sbn: u8, k: u32, t: usize, pool: &[EncodingPacket], set: &BTreeSet<(u8, u32, usize)>) -> Option<Vec<u8>> {
    let mut d = SourceBlockDecoder::new(sbn, cfg, k as u64 * t as u64);
    let mut out = None;
    for &(b, _, pi) in set {
        if b == sbn {
            out = d.decode(std::iter::once(pool[pi].clone()));
        }
    }
    out
}

fn check(c: &Case, st: &mut Stats) -> Result<(), String> {
    let spec = &c.spec;
    let (t, f) = (spec.t(), spec.f());
    let data = spec.data();
    let cfg = spec.cfg();
    let enc = Encoder::new(&data, cfg);
    let pool = build_pool(&enc, spec.seed, |k| (k as usize / 2 + 6).min(30));
    let _ = &data;
    let z = pool.ks.len();
    let npool = pool.packets.len();

    let mut a = Decoder::new(cfg); // one-shot interface, decoder under test
    let mut a_orig: Option<Decoder> = None; // original kept after a Clone op
    let mut b = Decoder::new(cfg); // incremental interface
    let mut m = Decoder::new(cfg); // both interfaces, alternating
    let mut blocks: Vec<SourceBlockDecoder> = (0..z).map(|zi| SourceBlockDecoder::new(zi as u8, &cfg, pool.ks[zi] as u64 * t as u64)).collect();
    let mut block_answer: Vec<Option<Vec<u8>>> = vec![None; z];
    let mut buffers: Vec<Vec<EncodingPacket>> = vec![vec![]; z];
    let mut set: BTreeSet<(u8, u32, usize)> = BTreeSet::new();
    let mut block_set_at_flush: Vec<BTreeSet<(u8, u32, usize)>> = vec![BTreeSet::new(); z];
    let mut first_answer: Option<Vec<u8>> = None;
    let mut last_a: Option<Vec<u8>> = None;
    let mut src_seen = vec![0u32; z];
    let (mut dup_src_before, mut after_completion, mut clones, mut flushes, mut checkpoints) = (false, 0u32, 0u32, 0u32, 0u32);
    let mut interleaved = false;
    let mut last_sbn: Option<u8> = None;
    let mut switches = 0;
    let mut deliveries = 0u32;

    let mut flush = |zi: usize, blocks: &mut Vec<SourceBlockDecoder>, buffers: &mut Vec<Vec<EncodingPacket>>, block_answer: &mut Vec<Option<Vec<u8>>>, block_set_at_flush: &mut Vec<BTreeSet<(u8, u32, usize)>>, set: &BTreeSet<(u8, u32, usize)>| -> Result<(), String> {
        if buffers[zi].is_empty() {
            return Ok(());
        }
        let batch = std::mem::take(&mut buffers[zi]);
        let r = blocks[zi].decode(batch);
        block_set_at_flush[zi] = set.iter().filter(|e| e.0 as usize == zi).cloned().collect();
        if let Some(prev) = &block_answer[zi] {
            if r.as_ref() != Some(prev) {
                return Err(format!("block decoder {zi}: answered before, but a later batch call returns {}", if r.is_some() { "different bytes" } else { "None" }));
            }
        }
        if r.is_some() {
            block_answer[zi] = r;
        }
        Ok(())
    };

    for (step, op) in c.ops.iter().enumerate() {
        match op {
            Op::Deliver(raw) => {
                let pi = map_index(*raw, npool);
                let pkt = pool.packets[pi].clone();
                let sbn = pkt.payload_id().source_block_number();
                let esi = pkt.payload_id().encoding_symbol_id();
                deliveries += 1;
                if let Some(l) = last_sbn {
                    if l != sbn {
                        switches += 1;
                    }
                }
                last_sbn = Some(sbn);
                if switches >= 3 {
                    interleaved = true;
                }
                let fresh = set.insert((sbn, esi, pi));
                if !fresh && esi < pool.ks[sbn as usize] && first_answer.is_none() {
                    dup_src_before = true;
                }
                if fresh && esi < pool.ks[sbn as usize] {
                    src_seen[sbn as usize] += 1;
                }
                if first_answer.is_some() {
                    after_completion += 1;
                }
                // (A) one-shot interface
                let ra = a.decode(pkt.clone());
                // (3') a decoder on which both interfaces are mixed agrees as well
                let via_decode = (*raw as u32 + step as u32) % 2 == 0;
                let rm = if via_decode {
                    m.decode(pkt.clone())
                } else {
                    m.add_new_packet(pkt.clone());
                    m.get_result()
                };
                // (3) incremental interface agrees with the one-shot interface
                b.add_new_packet(pkt.clone());
                let rb = b.get_result();
                if ra != rm {
                    return Err(format!("step {step}: decode() gives {} but a decoder fed through decode() and add_new_packet() alternately gives {} (this step via {})", desc(&ra), desc(&rm), if via_decode { "decode" } else { "get_result" }));
                }
                if ra != rb {
                    return Err(format!("step {step}: decode() gives {} but add_new_packet()+get_result() gives {}", desc(&ra), desc(&rb)));
                }
                // (4) the original continues exactly like its clone
                if let Some(orig) = a_orig.as_mut() {
                    let ro = orig.decode(pkt.clone());
                    if ro != ra {
                        return Err(format!("step {step}: cloned decoder answers {} but the original answers {}", desc(&ra), desc(&ro)));
                    }
                }
                // (2) stability and (5) ground truth
                // (what the bytes are is C01's statement; here only their stability matters)
                if let Some(x) = &ra {
                    if first_answer.is_none() {
                        first_answer = Some(x.clone());
                    }
                }
                if let Some(prev) = &first_answer {
                    if ra.as_ref() != Some(prev) {
                        return Err(format!("step {step}: decoder answered before, now answers {}", desc(&ra)));
                    }
                }
                last_a = ra;
                buffers[sbn as usize].push(pkt);
            }
            Op::Flush => {
                flushes += 1;
                for zi in 0..z {
                    flush(zi, &mut blocks, &mut buffers, &mut block_answer, &mut block_set_at_flush, &set)?;
                }
            }
            Op::Clone => {
                clones += 1;
                let cl = a.clone();
                if cl != a {
                    return Err("a cloned decoder is not equal to its original".into());
                }
                a_orig = Some(std::mem::replace(&mut a, cl));
            }
            Op::Checkpoint => {
                checkpoints += 1;
                let r = reference_object(cfg, &pool.packets, &set);
                if r != last_a && deliveries > 0 {
                    return Err(format!("step {step}: after {} distinct packets the decoder's answer is {} but the same set in ascending order, one per call, gives {}", set.len(), desc(&last_a), desc(&r)));
                }
            }
        }
    }
    // final comparisons
    for zi in 0..z {
        flush(zi, &mut blocks, &mut buffers, &mut block_answer, &mut block_set_at_flush, &set)?;
    }
    let r = reference_object(cfg, &pool.packets, &set);
    if deliveries > 0 && r != last_a {
        return Err(format!("final: {} distinct packets; history answer {}, reference order answer {}", set.len(), desc(&last_a), desc(&r)));
    }
    if b.get_result() != last_a && deliveries > 0 {
        return Err("final: get_result() differs from the last decode() answer".into());
    }
    let mut solver_block = false;
    for zi in 0..z {
        let k = pool.ks[zi];
        let rb = reference_block(&cfg, zi as u8, k, t, &pool.packets, &set);
        // the batched block decoder has seen exactly the same distinct set after the final flush
        let got = block_answer[zi].clone();
        if got.is_some() != rb.is_some() {
            // a batch call evaluates only once per batch, on the full set so far: set-determined
            return Err(format!("block {zi} (K={k}): batched delivery answers {} but one-per-call ascending delivery of the same {} distinct packets answers {}", desc(&got), set.iter().filter(|e| e.0 as usize == zi).count(), desc(&rb)));
        }
        if let (Some(x), Some(y)) = (&got, &rb) {
            if x != y {
                return Err(format!("block {zi}: batched and one-per-call delivery return different bytes"));
            }
            if src_seen[zi] < k {
                solver_block = true;
            }
        }
    }
    st.evals(deliveries as u64);
    st.class_if(clones > 0, "history with clone");
    st.class_if(z > 3, "more than 3 blocks");
    st.class_if(flushes > 0, "history with batch flush");
    st.class_if(interleaved, "interleaved blocks");
    st.class_if(dup_src_before, "duplicate source packet before completion");
    st.class_if(after_completion > 0, "delivery after completion");
    st.class_if(solver_block, "a block completed by the solver");
    st.class_if(first_answer.is_some(), "object completed");
    st.class_if(checkpoints > 0, "checkpoint comparisons");
    if dup_src_before && after_completion > 0 && solver_block {
        let bytes: Vec<u8> = c.ops.iter().flat_map(|o| match o {
            Op::Deliver(r) => vec![0, (*r >> 8) as u8, *r as u8],
            Op::Flush => vec![1],
            Op::Clone => vec![2],
            Op::Checkpoint => vec![3],
        }).collect();
        st.nt(fnv_u64s(&[spec.seed, f as u64, fnv64(&bytes)]));
    }
    st.sample(|| json!({"F": f, "T": t, "Z": spec.z, "N": spec.n, "K_per_block": pool.ks, "ops": c.ops.len(), "deliveries": deliveries, "distinct": set.len(), "clones": clones, "flushes": flushes, "completed": first_answer.is_some()}));
    Ok(())
}

fn desc(r: &Option<Vec<u8>>) -> String {
    match r {
        None => "None".into(),
        Some(v) => format!("Some({} bytes, fnv {:x})", v.len(), fnv64(v)),
    }
}

fn op_json(o: &Op) -> Value {
    match o {
        Op::Deliver(r) => json!({"d": r}),
        Op::Flush => json!("flush"),
        Op::Clone => json!("clone"),
        Op::Checkpoint => json!("checkpoint"),
    }
}

fn to_json(c: &Case) -> Value {
    json!({"spec": c.spec.to_json(), "ops": c.ops.iter().map(op_json).collect::<Vec<_>>()})
}

fn from_json(v: &Value) -> Case {
    Case {
        spec: ObjectSpec::from_json(&v["spec"]),
        ops: v["ops"]
            .as_array()
            .unwrap()
            .iter()
            .map(|o| match o.as_str() {
                Some("flush") => Op::Flush,
                Some("clone") => Op::Clone,
                Some("checkpoint") => Op::Checkpoint,
                _ => Op::Deliver(o["d"].as_u64().unwrap() as u16),
            })
            .collect(),
    }
}

fn signature(_: &Case, msg: &str) -> String {
    let kind = if msg.contains("panic") {
        "panic"
    } else if msg.contains("add_new_packet") || msg.contains("get_result") {
        "incremental-vs-oneshot"
    } else if msg.contains("clone") {
        "clone"
    } else if msg.contains("answered before") {
        "unstable-answer"
    } else if msg.contains("ascending") || msg.contains("reference order") {
        "order-dependence"
    } else if msg.contains("batched") {
        "batching"
    } else if msg.contains("not the object") || msg.contains("not the block") {
        "wrong-bytes"
    } else {
        "other"
    };
    format!("history:{kind}")
}

pub fn run(ctx: &Ctx, rep: &mut Report) {
    rep.rule = "stateful: generated object (Z <= 3 blocks of K <= 40, or in one case of nine 4..24 blocks of K <= 4; several (Al,T,N)) with a packet pool (all source packets + K/2+6 repair packets per block with near/uniform/far ESIs) and a generated history of up to 420 operations: Deliver(any pool index: duplicates and re-delivery after completion occur), Flush (per-block batches through SourceBlockDecoder::decode(iter)), Clone (continue on the clone, keep the original running on the same suffix), Checkpoint. Invariants after every step: decode() == add_new_packet()+get_result() == a decoder on which both interfaces alternate; clone == original and both give identical answers afterwards; once Some(x), always Some(x); at checkpoints and at the end the answer equals that of a fresh decoder fed the distinct packets in ascending (SBN, ESI) order one per call; batched per-block delivery == one-per-call delivery of the same set. Non-trivial = history with a duplicate source packet before completion, a delivery after completion and a block completed by the solver; distinct by (object, op sequence).".into();
    let n = ctx.tier.pick(80_000u64, 800_000);
    rep.absorb("history", run_sharded("C08", "history", ctx.seed, n, 32, strategy, check, to_json, signature));
}

pub fn replay(_sub: &str, case: &Value) -> Result<(), String> {
    check(&from_json(case), &mut Stats::new())
}

/// Fuzz entry: bytes -> small object + operation history -> history invariants.
pub fn fuzz_one(data: &[u8]) -> Result<(), String> {
    use arbitrary::Unstructured;
    let mut u = Unstructured::new(data);
    let (al, tu) = [(1usize, 1usize), (1, 2), (1, 5), (2, 2), (4, 3), (8, 1), (1, 16)][u.int_in_range(0..=6usize).unwrap_or(0)];
    let z = u.int_in_range(1..=3usize).unwrap_or(1);
    let kt = u.int_in_range(z..=z * 20).unwrap_or(z);
    let t = al * tu;
    let spec = ObjectSpec { al, tu, z, n: u.int_in_range(1..=tu.min(3)).unwrap_or(1), kt, r: u.int_in_range(1..=t).unwrap_or(t), class: u.int_in_range(0..=4u64).unwrap_or(0), seed: u.arbitrary().unwrap_or(0) };
    let mut ops = vec![];
    while !u.is_empty() && ops.len() < 260 {
        let b: u8 = u.arbitrary().unwrap_or(0);
        ops.push(match b % 25 {
            0..=19 => Op::Deliver(u.arbitrary().unwrap_or(0)),
            20..=22 => Op::Flush,
            23 => Op::Clone,
            _ => Op::Checkpoint,
        });
    }
    let c = Case { spec, ops };
    check(&c, &mut Stats::new()).map_err(|m| format!("{m} | case {}", to_json(&c)))
}

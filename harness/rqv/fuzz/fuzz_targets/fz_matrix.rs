#![no_main]
//! libFuzzer target (AddressSanitizer): structure-aware decoding of the input into a case of
//! the same generators the rqv engine uses, with the same semantic oracle inside the target.
//! Expected refusals (documented asserts) are panics caught inside the oracle, so libFuzzer's
//! abort-on-panic hook is replaced by a recording hook; an oracle failure aborts explicitly.
use libfuzzer_sys::fuzz_target;
use std::sync::Once;

static INIT: Once = Once::new();

fuzz_target!(|data: &[u8]| {
    INIT.call_once(rqv::util::install_quiet_panic_hook);
    // reset process-wide state the code under test keeps between iterations
    raptorq::verif::verif_kernels::force_kernel(None);
    let r = match rqv::util::catch(|| rqv::fuzz_target("fz_matrix", data)) {
        Ok(r) => r,
        Err(p) => Err(format!("panic: {p}")),
    };
    if let Err(m) = r {
        eprintln!("ORACLE[fz_matrix] property={}: {m}", rqv::fuzz_property("fz_matrix", &m));
        std::process::abort();
    }
});

//! C07 differential digest: runs a seeded workload of encode/decode cases through every
//! configuration available in THIS build and prints one SHA-256 per (case, configuration).
//! Built in several cargo configurations (release/chk x std/no_std); the driver compares.
//!
//! usage: digest <seed> <cases> <kmax> <mode>     mode: full | lite
//! output lines: "<case> <config> <nontrivial 0|1> <hex digest>"

use raptorq::verif::verif_kernels as vk;
use raptorq::{
    EncodingPacket, ObjectTransmissionInformation, SourceBlockDecoder, SourceBlockEncoder,
    SourceBlockEncodingPlan,
};

// ---- deterministic PRNG and SHA-256 (self-contained) ----
struct SplitMix(u64);
impl SplitMix {
    fn next(&mut self) -> u64 {
        self.0 = self.0.wrapping_add(0x9E37_79B9_7F4A_7C15);
        let mut z = self.0;
        z = (z ^ (z >> 30)).wrapping_mul(0xBF58_476D_1CE4_E5B9);
        z = (z ^ (z >> 27)).wrapping_mul(0x94D0_49BB_1331_11EB);
        z ^ (z >> 31)
    }
    fn below(&mut self, n: u64) -> u64 {
        ((self.next() as u128 * n as u128) >> 64) as u64
    }
    fn bytes(&mut self, n: usize) -> Vec<u8> {
        let mut v = Vec::with_capacity(n + 8);
        while v.len() < n {
            v.extend_from_slice(&self.next().to_le_bytes());
        }
        v.truncate(n);
        v
    }
}

const K256: [u32; 64] = [
    0x428a2f98, 0x71374491, 0xb5c0fbcf, 0xe9b5dba5, 0x3956c25b, 0x59f111f1, 0x923f82a4, 0xab1c5ed5,
    0xd807aa98, 0x12835b01, 0x243185be, 0x550c7dc3, 0x72be5d74, 0x80deb1fe, 0x9bdc06a7, 0xc19bf174,
    0xe49b69c1, 0xefbe4786, 0x0fc19dc6, 0x240ca1cc, 0x2de92c6f, 0x4a7484aa, 0x5cb0a9dc, 0x76f988da,
    0x983e5152, 0xa831c66d, 0xb00327c8, 0xbf597fc7, 0xc6e00bf3, 0xd5a79147, 0x06ca6351, 0x14292967,
    0x27b70a85, 0x2e1b2138, 0x4d2c6dfc, 0x53380d13, 0x650a7354, 0x766a0abb, 0x81c2c92e, 0x92722c85,
    0xa2bfe8a1, 0xa81a664b, 0xc24b8b70, 0xc76c51a3, 0xd192e819, 0xd6990624, 0xf40e3585, 0x106aa070,
    0x19a4c116, 0x1e376c08, 0x2748774c, 0x34b0bcb5, 0x391c0cb3, 0x4ed8aa4a, 0x5b9cca4f, 0x682e6ff3,
    0x748f82ee, 0x78a5636f, 0x84c87814, 0x8cc70208, 0x90befffa, 0xa4506ceb, 0xbef9a3f7, 0xc67178f2,
];

fn sha256(data: &[u8]) -> String {
    let mut h: [u32; 8] = [0x6a09e667, 0xbb67ae85, 0x3c6ef372, 0xa54ff53a, 0x510e527f, 0x9b05688c, 0x1f83d9ab, 0x5be0cd19];
    let mut msg = data.to_vec();
    let bitlen = (data.len() as u64).wrapping_mul(8);
    msg.push(0x80);
    while msg.len() % 64 != 56 {
        msg.push(0);
    }
    msg.extend_from_slice(&bitlen.to_be_bytes());
    for b in msg.chunks(64) {
        let mut w = [0u32; 64];
        for i in 0..16 {
            w[i] = u32::from_be_bytes([b[4 * i], b[4 * i + 1], b[4 * i + 2], b[4 * i + 3]]);
        }
        for i in 16..64 {
            let s0 = w[i - 15].rotate_right(7) ^ w[i - 15].rotate_right(18) ^ (w[i - 15] >> 3);
            let s1 = w[i - 2].rotate_right(17) ^ w[i - 2].rotate_right(19) ^ (w[i - 2] >> 10);
            w[i] = w[i - 16].wrapping_add(s0).wrapping_add(w[i - 7]).wrapping_add(s1);
        }
        let mut v = h;
        for i in 0..64 {
            let s1 = v[4].rotate_right(6) ^ v[4].rotate_right(11) ^ v[4].rotate_right(25);
            let ch = (v[4] & v[5]) ^ (!v[4] & v[6]);
            let t1 = v[7].wrapping_add(s1).wrapping_add(ch).wrapping_add(K256[i]).wrapping_add(w[i]);
            let s0 = v[0].rotate_right(2) ^ v[0].rotate_right(13) ^ v[0].rotate_right(22);
            let maj = (v[0] & v[1]) ^ (v[0] & v[2]) ^ (v[1] & v[2]);
            let t2 = s0.wrapping_add(maj);
            v = [t1.wrapping_add(t2), v[0], v[1], v[2], v[3].wrapping_add(t1), v[4], v[5], v[6]];
        }
        for i in 0..8 {
            h[i] = h[i].wrapping_add(v[i]);
        }
    }
    h.iter().map(|x| format!("{x:08x}")).collect()
}

// ---- workload ----
struct Case {
    k: u32,
    t: usize,
    data: Vec<u8>,
    repair_esis: Vec<u32>,
    /// ESIs delivered to the decoder, in order
    received: Vec<u32>,
}

fn gen_case(seed: u64, idx: u64, kmax: u32) -> Case {
    let mut r = SplitMix(seed ^ idx.wrapping_mul(0xA24B_AED4_963E_E407) ^ 0xC07);
    let k = match r.below(10) {
        0..=5 => 1 + r.below(60.min(kmax as u64)) as u32,
        6..=8 => 1 + r.below(200.min(kmax as u64)) as u32,
        _ => (201 + r.below(100) as u32).min(kmax),
    };
    let t = match r.below(6) {
        0 => 1,
        1 => 1 + r.below(8) as usize,
        2 => 63 + r.below(4) as usize,
        3 => 1 + r.below(130) as usize,
        4 => 16,
        _ => 40 + r.below(60) as usize,
    };
    let data = r.bytes(k as usize * t);
    let mut repair = std::collections::BTreeSet::new();
    // one case in two is a "wide" case: enough repair symbols for overheads around and beyond
    // H and S+H (where the decoder's GF(2)-only attempt is tried, fails or succeeds)
    let wide = r.below(2) == 0;
    let want = if wide { 24 + r.below(60) as usize } else { 4 + r.below(12) as usize };
    while repair.len() < want {
        let e = match r.below(3) {
            0 => k + r.below(40) as u32,
            1 => k + r.below((1u64 << 24) - k as u64) as u32,
            _ => (1u32 << 24) - 1 - r.below(200) as u32,
        };
        repair.insert(e);
    }
    let repair_esis: Vec<u32> = repair.into_iter().collect();
    // erasure pattern: drop some source symbols, add repair symbols; overhead -1..3 so that
    // undecodable sets occur too
    let drop = if wide { (1 + r.below(4.min(k as u64))) as usize } else { (1 + r.below(repair_esis.len().min(k as usize) as u64)) as usize };
    let mut src: Vec<u32> = (0..k).collect();
    for i in (1..src.len()).rev() {
        let j = r.below(i as u64 + 1) as usize;
        src.swap(i, j);
    }
    src.truncate(k as usize - drop);
    let overhead = if !wide {
        r.below(4) as i64 - 1
    } else if r.below(3) < 2 {
        7 + r.below(14) as i64
    } else {
        r.below((want - drop) as u64 + 1) as i64
    };
    let n_rep = ((drop as i64 + overhead).max(0) as usize).min(repair_esis.len());
    let mut received = src;
    received.extend(repair_esis.iter().take(n_rep));
    for i in (1..received.len()).rev() {
        let j = r.below(i as u64 + 1) as usize;
        received.swap(i, j);
    }
    Case { k, t, data, repair_esis, received }
}

#[derive(Clone, Copy)]
enum Plan {
    New,
    NewAgain,
    WithPlan,
    Unplanned,
}

fn run_case(c: &Case, plan: Plan, enc_thr: u32, dec_thr: u32) -> (bool, String) {
    let cfg = ObjectTransmissionInformation::new((c.k as usize * c.t) as u64, c.t as u16, 1, 1, 1);
    let enc = match plan {
        Plan::New | Plan::NewAgain => SourceBlockEncoder::new(0, &cfg, &c.data),
        Plan::WithPlan => {
            let p = SourceBlockEncodingPlan::verif_generate(c.k as u16, enc_thr);
            SourceBlockEncoder::with_encoding_plan(0, &cfg, &c.data, &p)
        }
        Plan::Unplanned => SourceBlockEncoder::verif_new_unplanned(0, &cfg, &c.data, enc_thr).expect("singular"),
    };
    let mut buf: Vec<u8> = vec![];
    let src = enc.source_packets();
    for p in &src {
        buf.extend_from_slice(&p.serialize());
    }
    let mut rep: Vec<EncodingPacket> = vec![];
    for &e in &c.repair_esis {
        let p = enc.repair_packets(e - c.k, 1).pop().unwrap();
        buf.extend_from_slice(&p.serialize());
        rep.push(p);
    }
    let mut dec = SourceBlockDecoder::new(0, &cfg, (c.k as usize * c.t) as u64);
    dec.verif_set_sparse_threshold(dec_thr);
    let mut out = None;
    let mut n_src = 0;
    let pkt = |e: u32| -> EncodingPacket {
        if e < c.k {
            src[e as usize].clone()
        } else {
            rep[c.repair_esis.iter().position(|&x| x == e).unwrap()].clone()
        }
    };
    // long reception lists are fed one by one only up to the first answer (a block decoder
    // re-solves on every later call, which the debug-assertion builds cannot afford)
    let long = c.received.len() > c.k as usize + 3;
    for &e in &c.received {
        if e < c.k {
            n_src += 1;
        }
        out = dec.decode(std::iter::once(pkt(e)));
        if long && out.is_some() {
            break;
        }
    }
    let nontrivial = out.is_some() && n_src < c.k;
    match &out {
        Some(b) => {
            buf.push(1);
            buf.extend_from_slice(b);
        }
        None => buf.push(0),
    }
    // the same reception set once more, handed to a fresh decoder in ONE call (with enough
    // overhead this takes the GF(2)-only attempt and, when that fails, its fall-back)
    let mut dec2 = SourceBlockDecoder::new(0, &cfg, (c.k as usize * c.t) as u64);
    dec2.verif_set_sparse_threshold(dec_thr);
    match dec2.decode(c.received.iter().map(|&e| pkt(e))) {
        Some(b) => {
            buf.push(3);
            buf.extend_from_slice(&b);
        }
        None => buf.push(2),
    }
    (nontrivial, sha256(&buf))
}

/// Object-level case: several blocks / sub-blocks through Encoder and Decoder, packets delivered
/// in a generated order with losses; digest over all packets and the decoder's answers.
fn run_object_case(seed: u64, idx: u64, dec_thr: u32) -> (bool, String) {
    use raptorq::{Decoder, Encoder};
    let mut r = SplitMix(seed ^ idx.wrapping_mul(0x9FB2_1C65_1E98_DF25) ^ 0x0B1);
    let al = [1usize, 2, 4, 8][r.below(4) as usize];
    let tu = 1 + r.below((40 / al) as u64) as usize;
    let t = tu * al;
    let z = 1 + r.below(4) as usize;
    let kt = z + r.below((30 * z) as u64) as usize;
    let n = 1 + r.below(tu.min(3) as u64) as usize;
    let f = (kt - 1) * t + 1 + r.below(t as u64) as usize;
    let data = r.bytes(f);
    let cfg = ObjectTransmissionInformation::new(f as u64, t as u16, z as u8, n as u16, al as u8);
    let enc = Encoder::new(&data, cfg);
    let mut packets = enc.get_encoded_packets(4 + r.below(6) as u32);
    let mut buf: Vec<u8> = vec![];
    for p in &packets {
        buf.extend_from_slice(&p.serialize());
    }
    // shuffle, drop a few
    for i in (1..packets.len()).rev() {
        let j = r.below(i as u64 + 1) as usize;
        packets.swap(i, j);
    }
    let drop = r.below(6) as usize;
    packets.truncate(packets.len().saturating_sub(drop));
    let mut dec = Decoder::new(cfg);
    dec.verif_set_sparse_threshold(dec_thr);
    let mut first_some = usize::MAX;
    let mut out = None;
    for (i, p) in packets.into_iter().enumerate() {
        if let Some(o) = dec.decode(p) {
            if first_some == usize::MAX {
                first_some = i;
            }
            out = Some(o);
        }
    }
    buf.extend_from_slice(&(first_some as u64).to_le_bytes());
    match &out {
        Some(b) => {
            buf.push(1);
            buf.extend_from_slice(b);
        }
        None => buf.push(0),
    }
    (out.is_some(), sha256(&buf))
}

/// Default-derivation path: the configuration a build derives on its own (with_defaults /
/// EncoderBuilder) is an output too. `idx` selects (F, P'); large objects are included because
/// the default memory budget only matters beyond ~1 MB.
fn run_defaults_oti(seed: u64, idx: u64) -> String {
    let mut r = SplitMix(seed ^ idx.wrapping_mul(0xD1B5_4A32_D192_ED03) ^ 0xDEF);
    let bits = 1 + r.below(40);
    let f = ((1u64 << (bits - 1)) | (r.next() & ((1u64 << (bits - 1)) - 1))).min(942574504275);
    let p = match r.below(4) {
        0 => 1 + r.below(70) as u16,
        1 => [63u16, 64, 65, 1024, 1280, 1400, 8192, 65535][r.below(8) as usize],
        _ => 8 + r.below(65528) as u16,
    };
    let mut buf = vec![];
    buf.extend_from_slice(&f.to_be_bytes());
    buf.extend_from_slice(&p.to_be_bytes());
    buf.extend_from_slice(&ObjectTransmissionInformation::with_defaults(f, p).serialize());
    sha256(&buf)
}

fn run_defaults_object(idx: u64) -> String {
    use raptorq::{Decoder, Encoder, EncoderBuilder};
    let (len, mtu): (usize, u16) = [(100_000, 1024), (1_200_000, 8192), (3_000_000, 8192), (1_050_000, 2048), (700_000, 65535), (5_000, 64)][(idx % 6) as usize];
    let data: Vec<u8> = (0..len).map(|i| ((i as u64).wrapping_mul(0x9E37_79B9) >> 7) as u8).collect();
    let enc = Encoder::with_defaults(&data, mtu);
    let cfg = enc.get_config();
    let mut b = EncoderBuilder::new();
    b.set_max_packet_size(mtu);
    let cfg2 = b.build(&data[..len.min(20_000)]).get_config();
    let mut buf = vec![];
    buf.extend_from_slice(&cfg.serialize());
    buf.extend_from_slice(&cfg2.serialize());
    let mut dec = Decoder::new(cfg);
    let mut out = None;
    for (i, blk) in enc.get_block_encoders().iter().enumerate() {
        let src = blk.source_packets();
        for (j, p) in src.into_iter().enumerate() {
            if j < 3 {
                buf.extend_from_slice(&p.serialize());
            }
            if j != i % 2 {
                out = dec.decode(p);
            }
        }
        for p in blk.repair_packets(0, 3) {
            buf.extend_from_slice(&p.serialize());
            if let Some(o) = dec.decode(p) {
                out = Some(o);
            }
        }
    }
    match out {
        Some(o) => {
            buf.push(1);
            buf.extend_from_slice(&sha256(&o).into_bytes());
        }
        None => buf.push(0),
    }
    sha256(&buf)
}

fn main() {
    let a: Vec<String> = std::env::args().collect();
    let seed: u64 = a[1].parse().unwrap();
    let cases: u64 = a[2].parse().unwrap();
    let kmax: u32 = a[3].parse().unwrap();
    let full = a[4] == "full";
    let workload: Vec<Case> = (0..cases).map(|i| gen_case(seed, i, kmax)).collect();
    let mut kernels: Vec<(String, Option<vk::Kernel>)> = vec![("default".into(), None)];
    if full {
        for k in vk::ALL_KERNELS {
            if vk::supported(k) {
                kernels.push((format!("{k:?}"), Some(k)));
            }
        }
    }
    let thresholds: [(&str, u32); 3] = [("0", 0), ("250", 250), ("inf", u32::MAX)];
    let plans: Vec<(&str, Plan)> = if full {
        vec![("new", Plan::New), ("new2", Plan::NewAgain), ("plan", Plan::WithPlan), ("unplanned", Plan::Unplanned)]
    } else {
        vec![("new", Plan::New), ("unplanned", Plan::Unplanned)]
    };
    std::panic::set_hook(Box::new(|_| {}));
    let threads = 16usize;
    let mut lines: Vec<String> = vec![];
    for (kname, kernel) in &kernels {
        vk::force_kernel(*kernel);
        // cases in parallel (the kernel override is process-wide, so it stays outermost)
        let chunks: Vec<Vec<usize>> = (0..threads).map(|t| (0..workload.len()).filter(|i| i % threads == t).collect()).collect();
        let results: Vec<Vec<String>> = std::thread::scope(|s| {
            let hs: Vec<_> = chunks
                .iter()
                .map(|chunk| {
                    let workload = &workload;
                    let plans = &plans;
                    s.spawn(move || {
                        let mut out = vec![];
                        for &i in chunk {
                            let c = &workload[i];
                            // every fourth case is an object-level case (several blocks / sub-blocks)
                            if i % 4 == 3 {
                                for (tname, thr) in thresholds {
                                    let (nt, d) = match std::panic::catch_unwind(std::panic::AssertUnwindSafe(|| run_object_case(seed, i as u64, thr))) {
                                        Ok(r) => r,
                                        Err(_) => (false, "PANIC".to_string()),
                                    };
                                    out.push(format!("{i} kernel={kname},thr={tname},plan=object {} {d}", nt as u8));
                                }
                                continue;
                            }
                            for (tname, thr) in thresholds {
                                for (pname, plan) in plans.iter() {
                                    // the encoder-side threshold only matters for plan/unplanned
                                    // a panic in one configuration is a result of its own
                                    let (nt, d) = match std::panic::catch_unwind(std::panic::AssertUnwindSafe(|| run_case(c, *plan, thr, thr))) {
                                        Ok(r) => r,
                                        Err(_) => (false, "PANIC".to_string()),
                                    };
                                    out.push(format!("{i} kernel={kname},thr={tname},plan={pname} {} {d}", nt as u8));
                                }
                            }
                        }
                        out
                    })
                })
                .collect();
            hs.into_iter().map(|h| h.join().unwrap()).collect()
        });
        for r in results {
            lines.extend(r);
        }
    }
    vk::force_kernel(None);
    // default-derivation cases (case numbers 1_000_000.. so that they never collide)
    let n_oti = 4000u64.min(cases * 10);
    for i in 0..n_oti {
        let d = std::panic::catch_unwind(|| run_defaults_oti(seed, i)).unwrap_or_else(|_| "PANIC".to_string());
        lines.push(format!("{} kernel=default,thr=250,plan=defaults-oti 0 {d}", 1_000_000 + i));
    }
    for i in 0..6u64 {
        let d = std::panic::catch_unwind(|| run_defaults_object(i)).unwrap_or_else(|_| "PANIC".to_string());
        lines.push(format!("{} kernel=default,thr=250,plan=defaults-object 1 {d}", 2_000_000 + i));
    }
    println!("# build: std={} debug_assertions={}", cfg!(feature = "std"), cfg!(debug_assertions));
    for l in lines {
        println!("{l}");
    }
}

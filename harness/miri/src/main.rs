//! C12 (thorough): a seeded, generated workload executed under Miri (Stacked Borrows) to catch
//! aliasing violations and out-of-bounds raw-pointer accesses that address checks cannot see.
//! usage: miri-workload <seed>   (prints the case in flight before running it)

use raptorq::verif::{Octet, SymbolSlab};
use raptorq::{ObjectTransmissionInformation, SourceBlockDecoder, SourceBlockEncoder};

struct SplitMix(u64);
impl SplitMix {
    fn next(&mut self) -> u64 {
        self.0 = self.0.wrapping_add(0x9E37_79B9_7F4A_7C15);
        let mut z = self.0;
        z = (z ^ (z >> 30)).wrapping_mul(0xBF58_476D_1CE4_E5B9);
        z = (z ^ (z >> 27)).wrapping_mul(0x94D0_49BB_1331_11EB);
        z ^ (z >> 31)
    }
    fn below(&mut self, n: u64) -> u64 {
        ((self.next() as u128 * n as u128) >> 64) as u64
    }
}

fn main() {
    let seed: u64 = std::env::args().nth(1).and_then(|s| s.parse().ok()).unwrap_or(1);
    let mut r = SplitMix(seed ^ 0xC12);
    // generated slab operation sequences (legal pairs only: refusals are exercised elsewhere)
    for case in 0..25 {
        let count = 2 + r.below(9) as usize;
        let ss = [1usize, 3, 7, 8, 9, 16, 17, 33][r.below(8) as usize];
        println!("slab case {case}: count={count} symbol_size={ss}");
        let mut slab = SymbolSlab::with_zeros(count, ss);
        for i in 0..count {
            for b in slab.get_mut(i).iter_mut() {
                *b = r.next() as u8;
            }
        }
        if r.below(2) == 0 {
            let mut order: Vec<usize> = (0..count).collect();
            for i in (1..count).rev() {
                let j = r.below(i as u64 + 1) as usize;
                order.swap(i, j);
            }
            slab.set_reorder(order);
        }
        for _ in 0..12 {
            let dest = r.below(count as u64) as usize;
            let mut src = r.below(count as u64) as usize;
            if src == dest {
                src = (src + 1) % count;
            }
            match r.below(4) {
                0 => slab.add_assign(dest, src),
                1 => slab.fma(dest, src, &Octet::new(2 + r.below(254) as u8)),
                2 => slab.mulassign_scalar(dest, &Octet::new(r.next() as u8)),
                _ => {
                    let (d, s) = slab.get_pair_mut(dest, src);
                    d[0] ^= s[ss - 1];
                }
            }
        }
    }
    // generated encode/decode cases with lost symbols (portable kernels; dense back-end)
    for case in 0..4 {
        let k = 1 + r.below(12) as usize;
        let t = [1usize, 3, 8, 9, 17][r.below(5) as usize];
        println!("codec case {case}: K={k} T={t}");
        let data: Vec<u8> = (0..k * t).map(|_| r.next() as u8).collect();
        let cfg = ObjectTransmissionInformation::new(data.len() as u64, t as u16, 1, 1, 1);
        let enc = SourceBlockEncoder::new(0, &cfg, &data);
        let mut pk = enc.source_packets();
        let lost = r.below(k as u64) as usize;
        pk.remove(lost);
        pk.extend(enc.repair_packets(r.below(1000) as u32, 3));
        let mut dec = SourceBlockDecoder::new(0, &cfg, data.len() as u64);
        let _ = dec.decode(pk);
    }
    println!("miri workload done");
}

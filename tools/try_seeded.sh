#!/usr/bin/env bash
# usage: try_seeded.sh <patch.diff> <check ids...> : applies a seeded change to /repo, runs the
# given checks (quick), and ALWAYS restores /repo afterwards.
PATCH=$1; shift
cd /verif
[ -n "$(git -C /repo status --porcelain)" ] && { echo "/repo is not clean"; exit 2; }
git -C /repo apply "$PATCH" || { echo "patch does not apply"; exit 2; }
trap 'git -C /repo checkout -- . ; echo "[/repo restored: $(git -C /repo status --porcelain | wc -l) dirty files]"' EXIT
for id in "$@"; do
  out=$(timeout 1800 ./check "$id" ${TIER:-quick} 2>&1); rc=$?
  echo "--- $id rc=$rc"; echo "$out" | grep -E "VIOLATION|KNOWN|INCONCLUSIVE|signature|^C[0-9]+ tier" | head -6
done

#!/usr/bin/env bash
# Builds every binary the checks use, offline, from files on disk (cargo registry cache + /repo).
set -e
export CARGO_NET_OFFLINE=true
cd /verif/harness
cargo build --release -p rqv
cargo build --profile chk -p rqv
cd /verif/harness/digest
for feat in std nostd; do
  flags=""; [ "$feat" = nostd ] && flags="--no-default-features"
  for profile in release chk; do
    cargo build --profile $profile $flags --target-dir /verif/harness/target-digest-$feat
  done
done
# fuzz targets (libFuzzer + AddressSanitizer, nightly); used by C12 quick and by thorough tiers
cd /verif/harness/rqv
cargo +nightly fuzz build
echo setup ok

#!/usr/bin/env bash
# Runs every check of MANIFEST.json in the given tier on the current tree; prints one line each.
cd /verif
TIER=${1:-quick}
SEED=${VERIF_SEED:-1}
for id in $(python3 -c "import json; print(' '.join(c['property_id'] for c in json.load(open('MANIFEST.json'))['checks']))"); do
  start=$(date +%s)
  out=$(VERIF_SEED=$SEED timeout 14400 ./check $id $TIER 2>&1); rc=$?
  end=$(date +%s)
  echo "$id rc=$rc $((end-start))s :: $(echo "$out" | grep -E "^C[0-9]+ tier|VIOLATION|KNOWN-FINDING|INCONCLUSIVE" | head -3 | tr '\n' ' ')"
done

#!/usr/bin/env python3
"""Sensitivity sweep: applies one-line mutants (string replacements) to /repo, runs the named
checks (quick tier), restores /repo, and records which checks fire. Not part of any check; the
results are summarised in DESIGN.md. usage: mutants.py [name-substring]"""
import subprocess, sys, json, os, time

M = [
 # name, file, old, new, checks expected to fire
 ("ldpc-a-offset", "src/constraint_matrix.rs", "        let a = 1 + i / S;\n\n        let b = i % S;\n        matrix.set(b, i, Octet::one());\n\n        let b = (b + a) % S;\n        matrix.set(b, i, Octet::one());\n\n        let b = (b + a) % S;", None, ["C04","C06"]),
 ("deg-table-le", "src/base.rs", "        if v < f[d] {", "        if v <= f[d] {", ["C04","C15"]),
 ("tuple-a-range", "src/base.rs", "    let a = 1 + rand(y, 1u32, W - 1);", "    let a = 1 + rand(y, 1u32, W - 2);", ["C15","C04"]),
 ("tuple-d1-le4", "src/base.rs", "    let d1 = if d < 4 {", "    let d1 = if d <= 4 {", ["C15","C04"]),
 ("hdpc-alpha-to-one", "src/constraint_matrix.rs", "            result[i][j] = (Octet::alpha(1) * Octet::new(result[i][j + 1])).byte();", "            result[i][j] = (Octet::alpha(0) * Octet::new(result[i][j + 1])).byte();", ["C04","C06","C03"]),
 ("decoder-case1-le", "src/decoder.rs", "        if self.received_esi.len() < self.source_block_symbols as usize {", "        if self.received_esi.len() <= self.source_block_symbols as usize {", ["C02","C03"]),
 ("decoder-all-source-by-esi-count", "src/decoder.rs", "        if self.received_source_symbols == self.source_block_symbols {", "        if self.received_esi.len() as u32 == self.source_block_symbols && self.repair_packets.is_empty() {", []),
 ("decoder-dup-counts-source", "src/decoder.rs", "            if self.received_esi.insert(payload_id.encoding_symbol_id()) {", "            if self.received_esi.insert(payload_id.encoding_symbol_id()) || payload_id.encoding_symbol_id() < self.source_block_symbols {", ["C08","C01"]),
 ("decoder-no-truncate", "src/decoder.rs", "        result.truncate(self.config.transfer_length() as usize);\n        Some(result)\n    }\n\n    #[cfg(not(feature = \"python\"))]\n    pub fn add_new_packet", "        Some(result)\n    }\n\n    #[cfg(not(feature = \"python\"))]\n    pub fn add_new_packet", ["C01","C05","C08"]),
 ("decoder-zl-zs-swapped", "src/decoder.rs", "        let (kl, ks, zl, zs) = partition(kt, config.source_blocks());\n\n        let mut decoders = vec![];", "        let (kl, ks, zs, zl) = partition(kt, config.source_blocks());\n\n        let mut decoders = vec![];", ["C01","C05"]),
 ("unpack-subblocks-order", "src/decoder.rs", "                let bytes = if sub_block < nl {\n                tl as usize * self.symbol_alignment as usize", None, []),
 ("partition-floor-il", "src/base.rs", "    let il = int_div_ceil(i as u64, j as u64);\n\n    let is = i / j;", "    let il = (i / j).max(1);\n\n    let is = i / j;", ["C05"]),
 ("payload-id-le", "src/base.rs", "            encoding_symbol_id: ((data[1] as u32) << 16) + ((data[2] as u32) << 8) + data[3] as u32,", "            encoding_symbol_id: ((data[3] as u32) << 16) + ((data[2] as u32) << 8) + data[1] as u32,", ["C13"]),
 ("oti-n-z-swapped-serialize", "src/base.rs", "            self.num_source_blocks,\n            (self.num_sub_blocks >> 8) as u8,\n            (self.num_sub_blocks & 0xFF) as u8,", "            (self.num_sub_blocks >> 8) as u8,\n            (self.num_sub_blocks & 0xFF) as u8,\n            self.num_source_blocks,", ["C13"]),
 ("oti-transfer-limit-lt", "src/base.rs", "        assert!(transfer_length <= 942574504275);", "        assert!(transfer_length < 942574504275);", ["C19"]),
 ("oti-symbols-limit-plus1", "src/base.rs", "            assert!(symbols_required <= MAX_SOURCE_SYMBOLS_PER_BLOCK as u64);", "            assert!(symbols_required <= MAX_SOURCE_SYMBOLS_PER_BLOCK as u64 + 1);", ["C19"]),
 ("oti-align-check", "src/base.rs", "        assert_eq!(symbol_size % alignment as u16, 0);", "        assert_eq!(symbol_size % (alignment as u16 + 1) * 0, 0);", ["C19"]),
 ("derive-al-gt-64", "src/base.rs", "if max_packet_size >= 8 * 8 {", "if max_packet_size > 8 * 8 {", ["C14"]),
 ("derive-z-from-kl1", "src/base.rs", "        let kl_max = kl(n_max).expect(", "        let kl_max = kl(1).or(kl(n_max)).expect(", ["C14"]),
 ("cache-capacity-gt", "src/encoder.rs", "    if guard.plans.len() >= SOURCE_BLOCK_ENCODING_PLAN_CACHE_CAPACITY", "    if guard.plans.len() > SOURCE_BLOCK_ENCODING_PLAN_CACHE_CAPACITY", ["C17"]),
 ("cache-evict-back", "src/encoder.rs", "guard.insertion_order.pop_front()", "guard.insertion_order.pop_back()", []),
 ("cache-key-kprime", "src/encoder.rs", "            let plan = get_or_generate_source_block_encoding_plan(source_symbols.len() as u16);", "            let plan = get_or_generate_source_block_encoding_plan(extended_source_block_symbols(source_symbols.len() as u32) as u16);", ["C17","C06","C01"]),
 ("repair-id-drop-i", "src/encoder.rs", "                    self.source_symbols.len() as u32 + start_repair_symbol_id + i,", "                    self.source_symbols.len() as u32 + start_repair_symbol_id + i.min(1000),", []),
 ("encoded-packets-repair-first", "src/encoder.rs", "            packets.extend(encoder.source_packets());\n            packets.extend(encoder.repair_packets(0, repair_packets_per_block));", "            packets.extend(encoder.repair_packets(0, repair_packets_per_block));\n            packets.extend(encoder.source_packets());", ["C18","C05"]),
 ("octet-hi-table-shift3", "src/octet.rs", "            result[i][j] = const_mul(i, j << 4);\n            result[i][j + 16] = const_mul(i, j << 4);", "            result[i][j] = const_mul(i, j << 4);\n            result[i][j + 16] = const_mul(i, j << 3);", ["C10"]),
 ("ssse3-fma-tail-late", "src/octets.rs", None, None, []),
 ("portable-add-tail", "src/octets.rs", "    let remainder = octets.len() % 8;\n    for i in (octets.len() - remainder)..octets.len() {\n        unsafe {\n            *octets.get_unchecked_mut(i) ^= other.get_unchecked(i);", "    let remainder = octets.len() % 8;\n    for i in (octets.len() - remainder + (remainder > 6) as usize)..octets.len() {\n        unsafe {\n            *octets.get_unchecked_mut(i) ^= other.get_unchecked(i);", ["C11","C07"]),
 ("portable-add-overread", "src/octets.rs", "    for i in 0..(octets.len() / 8) {\n        unsafe {\n            #[allow(clippy::cast_ptr_alignment)]\n            let self_value = (self_ptr as *const u64).add(i).read_unaligned();", "    for i in 0..octets.len().div_ceil(8) {\n        unsafe {\n            #[allow(clippy::cast_ptr_alignment)]\n            let self_value = (self_ptr as *const u64).add(i).read_unaligned();", ["C12"]),
 ("slab-no-distinct-assert", "src/symbol_slab.rs", "        assert_ne!(dest, src, \"dest and src must differ\");\n", "", ["C12"]),
 ("sparse-swap-cols-no-p2l", "src/sparse_matrix.rs", "        self.logical_col_to_physical.swap(i, j);\n        self.physical_col_to_logical.swap(physical_i, physical_j);", "        self.logical_col_to_physical.swap(i, j);\n        self.physical_col_to_logical.swap(physical_i.min(physical_j), physical_i.max(physical_j).saturating_sub((i + j == 5) as usize));", ["C16"]),
 ("sparsevec-merge-drop-last", "src/sparse_vec.rs", "                } else {\n                    result.push(*self_index);\n                    self_next = self_iter.next();\n                }", "                } else {\n                    if self_iter.len() > 0 || other.elements.len() < 3 { result.push(*self_index); }\n                    self_next = self_iter.next();\n                }", ["C16"]),
 ("dense-resize-skip-words", "src/matrix.rs", "                    src += words_to_remove;", "                    src += words_to_remove.min(1);", ["C16"]),
 ("second-phase-first-pivot-only", "src/pi_solver.rs", "            for j in i..submatrix.height() {\n                if submatrix.get(j, i) != Octet::zero() {", "            for j in i..(i + 1) {\n                if submatrix.get(j, i) != Octet::zero() {", ["C02","C06"]),
 ("nostd-new-threshold", "src/encoder.rs", "                config.symbol_size() as usize,\n                SPARSE_MATRIX_THRESHOLD,\n            );\n\n            return SourceBlockEncoder {", "                config.symbol_size() as usize,\n                SPARSE_MATRIX_THRESHOLD,\n            );\n            let source_block_id = source_block_id ^ (source_symbols.len() % 8 == 5) as u8;\n\n            return SourceBlockEncoder {", ["C07"]),
]

def sh(cmd, **kw):
    return subprocess.run(cmd, shell=True, capture_output=True, text=True, **kw)

def main():
    flt = sys.argv[1] if len(sys.argv) > 1 else ""
    assert sh("git -C /repo status --porcelain").stdout.strip() == "", "/repo not clean"
    results = []
    for name, f, old, new, checks in M:
        if flt not in name or old is None or new is None or not checks:
            continue
        path = "/repo/" + f
        s = open(path).read()
        if s.count(old) != 1:
            results.append((name, "PATCH-NOT-UNIQUE(%d)" % s.count(old), {})); print(results[-1]); continue
        open(path, "w").write(s.replace(old, new))
        try:
            b = sh("cd /repo && cargo build --offline --features verif,benchmarking 2>&1 | tail -3")
            if "error" in b.stdout:
                results.append((name, "DOES-NOT-COMPILE", {})); print(results[-1], b.stdout[-300:]); continue
            res = {}
            for c in checks:
                t = time.time()
                r = sh(f"cd /verif && timeout 1500 ./check {c} quick")
                fired = "VIOLATION" in r.stdout
                sig = [l.strip() for l in r.stdout.splitlines() if "signature=" in l][:1]
                res[c] = ("FIRES " + (sig[0] if sig else "")) if fired else f"silent(rc={r.returncode})"
            results.append((name, "ok", res)); print(name, res, flush=True)
        finally:
            sh("git -C /repo checkout -- .")
    json.dump(results, open("/verif/logs/mutants.json", "w"), indent=1)

main()

#!/usr/bin/env python3
"""Regenerates /verif/MANIFEST.json from the table below (single source of truth)."""
import json, subprocess, sys, os
os.chdir(os.path.dirname(os.path.abspath(__file__)) + "/..")

# id -> (technique, level text, level note, design_ref); only built checks are listed here
CHECKS = {
 "C10": ("exhaustive enumeration vs. polynomial reference",
         "Exhaustive: all 256^2 pairs and 256^3 triples of the octet operators and all derived tables are compared with carry-less multiplication modulo 0x11D; the finite domain is covered completely, so this is as strong as testing gets for this property.",
         "Trusts the 20-line shift-and-reduce reference multiplier (unit-tested: generator order, inverses).",
         "DESIGN.md 5/C10"),
}
PENDING = {}  # id -> reason

props = [json.loads(l) for l in open("properties.jsonl")]
hooks = subprocess.run(["git","-C","/repo","log","--format=%H %s"],capture_output=True,text=True).stdout.splitlines()
hook_commits = [l.split()[0] for l in hooks if " verif hooks:" in l]
checks = []
for p in props:
    pid = p["id"]
    if pid in CHECKS:
        tech, text, note, ref = CHECKS[pid]
        checks.append({
          "property_id": pid,
          "quick_cmd": f"./check {pid} quick",
          "thorough_cmd": f"./check {pid} thorough",
          "evidence_file": f"/verif/evidence/{pid}.json",
          "replay_cmd_template": f"./check {pid} --replay {{path}}",
          "engine": "rqv",
          "level_claimed": {"category": "exploration", "text": text, "design_ref": ref},
          "level_note": note,
          "technique": tech,
        })
na = [{"property_id": p["id"], "reason": PENDING.get(p["id"], "check not built yet in this session (work in progress; see DESIGN.md section 5 for the planned generated-input check)")}
      for p in props if p["id"] not in CHECKS]
m = {
 "version": 1,
 "setup_cmd": "cd /verif/harness && CARGO_NET_OFFLINE=true cargo build --release -p rqv",
 "hooks": {
   "guard": "cargo feature `verif` of the raptorq crate (off by default)",
   "enable": "harness crates depend on raptorq by path with features [\"verif\", \"benchmarking\"] (no_std builds: default-features=false, features [\"verif\"])",
   "baseline_off_cmd": "cd /repo && cargo test --workspace --no-fail-fast --offline",
   "source_commits": hook_commits,
   "add_only": True,
 },
 "engines": [
   {"name": "rqv", "path": "/verif/harness/rqv", "serves_properties": sorted(CHECKS), "kind_free_text": "Rust binary: proptest TestRunner shards (fixed seeds, shrinking), exhaustive enumerators, independent RFC 6330 reference model"},
 ],
 "checks": checks,
 "not_applicable": na,
 "notes": "All checks are generated-input searches against explicit oracles (property-based testing / enumeration / fuzzing). Exit 2 = inconclusive (build failure, watchdog).",
}
json.dump(m, open("MANIFEST.json","w"), indent=1)
print("wrote MANIFEST.json:", len(checks), "checks,", len(na), "not_applicable")

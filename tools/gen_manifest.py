#!/usr/bin/env python3
"""Regenerates /verif/MANIFEST.json from the table below (single source of truth)."""
import json, subprocess, sys, os
os.chdir(os.path.dirname(os.path.abspath(__file__)) + "/..")

# id -> (technique, level text, level note, design_ref); only built checks are listed here
CHECKS = {
 "C11": ("enumerated grid (kernel x op x length x alignment x scalar) x generated contents vs. element-wise polynomial model, canaries; release and debug-assertion builds",
         "Every kernel the host can execute (AVX-512, AVX2, SSSE3, portable, via the hook) and the public dispatchers are run over all lengths 0..=320 (+511..513, 1280, 4099), all 64 start offsets, scalars and adversarial contents, and compared byte for byte with an element-wise model built on the polynomial multiplier; the packed binary operand is built by the harness from the documented layout. Thorough tier enumerates all 256 scalars everywhere.",
         "NEON kernels cannot run on this x86-64 host. The dispatch override/entry hooks are trusted to call the kernel they name.",
         "DESIGN.md 5/C11"),
 "C12": ("guard-page placement of kernel operands in a child process + proptest of the slab's paired borrow (address arithmetic; permutation and arbitrary reorder mappings; run in a child process whose death by signal is a finding) + ASan replay of a generated corpus",
         "Dynamic detection on generated inputs: (1) every kernel/op/length with operands flush against PROT_NONE pages (start and end), a fault kills the child and the parent reports the recorded case; (2) generated slab operation sequences: returned slices inside the slab and disjoint, illegal pairs refused, all symbols equal a model; (3) AddressSanitizer builds of the fuzz targets over a generated corpus (driver).",
         "Only executed paths; NEON excluded; aliasing rules beyond address overlap (Stacked/Tree Borrows) are not checked in the quick tier.",
         "DESIGN.md 5/C12"),
 "C16": ("model-based stateful proptest: both matrix implementations vs. a tri-state bit-array model under an admissible-operation grammar (plus dense-only sub-row / non-zero-column queries from any start column)",
         "Generated shapes and operation sequences (construction / indexed / un-indexed phases, mirroring every assert in sparse_matrix.rs) are applied to DenseBinaryMatrix, SparseBinaryMatrix and a plain Vec<Vec<Tri>> model; every query answer of both implementations is compared with the model on defined cells, plus a full scan at the end; also run with debug assertions. Found and drove the repair of two out-of-bounds panics of the dense matrix.",
         "Sampled sequences; undefined cells (left of start_col after a partial addition where the source row is non-zero) are excluded as the interface declares; trailing dense hint >= 1.",
         "DESIGN.md 5/C16"),
 "C17": ("controlled-scheduler exploration (threads parked in front of both critical sections and, for part of the shapes, while they hold a plan): exhaustive enumeration of interleavings for small shapes + generated schedules and eviction histories (sizes up to 120, and size families that agree modulo 2^k or share a Table-2 parameter), invariants after every step",
         "The harness owns the schedule of the plan cache's two critical sections through the yield hook: all interleavings are enumerated for 2x2, 3x1 and selected 3x2 request shapes (also with the cache at capacity), and generated request histories/schedules (incl. 60-90 distinct sizes to force eviction and re-requests of evicted sizes) are explored; after every critical section the capacity bound, the queue/key bijection and key == plan size are checked, and every encoder is compared (== and packet-wise) with encoders built without the cache. An uncontrolled multi-thread stress run adds the same invariants at the end.",
         "Sound reduction to critical-section granularity assumes all shared state is behind the cache Mutex (true in this tree) and std::sync::Mutex is correct; exhaustive only for the listed small shapes.",
         "DESIGN.md 5/C17"),
 "C07": ("multi-build differential testing over a seeded generated workload (packet-by-packet and one-call decodes, overheads up to and beyond H; SHA-256 per case and configuration) + in-process enumeration of all 477 block sizes through every construction (planned / unplanned / cache / dense / sparse), packets compared; release vs debug-assertion harness builds on oracle-constructed rank-deficient histories",
         "The same generated workload is run in 4 cargo builds (release / debug-assertions+overflow-checks x std / no_std) and, inside the release-std build, under every forced kernel (AVX-512, AVX2, SSSE3, portable, default) x sparse threshold {0, 250, inf} x plan mode {new, new again (cache hit), with_encoding_plan, unplanned}; every configuration must produce the identical digest of packets + decode outcome + decoded bytes for every case (undecodable cases included).",
         "Differential: agreement of all configurations, not absolute correctness (that is C01/C04). NEON and 32-bit x86 cannot run here. The dispatch override hook is trusted.",
         "DESIGN.md 5/C07"),
 "C13": ("exhaustive enumeration (payload IDs) + proptest vs. reference (de)serialisers",
         "All 2^32 payload-ID buffers are parsed and re-serialised against the RFC 3.2 layout (exhaustive); packets and the 12-byte transmission information are checked on generated buffers/values (field-boundary biased) against reference (de)serialisers written from RFC 3.3.2/3.3.3, both directions.",
         "Reference layouts written from the RFC text; OTI and packet sub-checks are sampled, not exhaustive.",
         "DESIGN.md 5/C13"),
 "C14": ("proptest with constructed in-domain cases vs. u128 reference derivation; metamorphic monotonicity; round trip",
         "Generated (F, P', WS) constructed at and around every boundary of the RFC 4.3 derivation (budget exactly admitting K' with n sub-blocks, quotients around 2^32, KL(n) undefined for small n) compared with an independent u128 derivation; monotonicity in WS; EncoderBuilder/Decoder round trips. Found and drove the repair of two panics inside the domain.",
         "Al = SS = 8 (P' >= 64) or 1 is taken as the library's fixed choice; search is sampled (3e5 quick / 2e7 thorough cases).",
         "DESIGN.md 5/C14"),
 "C15": ("exhaustive enumeration over K; stratified + boundary-solved (quick) / exhaustive (thorough) enumeration of (K', X) vs. reference Tuple, in release and overflow-checking builds",
         "Parameters are checked for every K (exhaustive). Tuples: the thorough tier enumerates all 8.0e9 (K', X) pairs in both build profiles; the quick tier covers 1.65e8 pairs per profile including inputs solved to sit on the 2^32 carry boundary of Rand (which uniform sampling cannot reach). Found and drove the repair of an overflow panic.",
         "Trusts V0..V3 / Table 2 as pinned; reference Tuple/Rand/Deg written from the RFC.",
         "DESIGN.md 5/C15"),
 "C19": ("proptest with limit-adjacent construction vs. u128 reference predicate",
         "Generated parameter sets built adjacent to every documented limit (and with ceil(F/T) beyond 2^32) are judged by a u128 reference predicate; accept/refuse must agree both ways and accepted values must be echoed. Found and drove the repair of an acceptance beyond the limit.",
         "Sampled search (2e6 quick / 2e8 thorough); domain restricted to positive T, Z, Al as the property states.",
         "DESIGN.md 5/C19"),
 "C01": ("proptest over objects (small, many-block, large) and delivery histories through decode(), add_new_packet()/get_result() and both alternating; oracle = original bytes + reference layout",
         "Generated objects (all data classes, F mod T, Z, N, Al) and generated delivery histories (subsets, orders, multiplicities, repair ESIs over the whole 24-bit range); after every decode call the answer must be None or exactly the object, Some once all source packets arrived; the same history through per-block decoders. Thorough adds K at the dense/sparse switch, K~1000 and K>=10000.",
         "Sampled; objects bounded (<= a few MB); packets are always encoder output (no corruption claimed).",
         "DESIGN.md 5/C01"),
 "C05": ("proptest (small and >2^16-symbol objects) + exhaustive small sweep vs. reference layout by index formula",
         "Every source packet's (SBN, ESI, payload) of generated configurations is compared with a reference layout computed by index formula (not via the crate's partition); partition()/calculate_block_offsets() vs reference; the decoder must invert that layout (all source packets; erasures + repair; per-block decoder). Small configurations are swept exhaustively.",
         "Reference layout written from RFC 4.4.1.2; sampled beyond the small exhaustive sweep.",
         "DESIGN.md 5/C05"),
 "C08": ("stateful proptest (operation histories) with invariants after every step",
         "Generated histories of Deliver/Flush/Clone/Checkpoint operations are interpreted over the one-shot, incremental, cloned and per-block batched decoders simultaneously; invariants: interface agreement, clone continuity, answer stability, ground truth, and equality with the reference history (same distinct set in ascending order).",
         "Sampled; K <= 40 per block, Z <= 3.",
         "DESIGN.md 5/C08"),
 "C09": ("metamorphic proptest (additivity, homogeneity, byte-column independence)",
         "For generated (K, T over every residue mod 8/16/32/64, data pairs, scalar, construction): pkt(A^B)=pkt(A)^pkt(B), pkt(cA)=c*pkt(A) (c* from the polynomial multiplier), byte j of pkt_T = pkt_1 of column j; decoding outcome and bytes independent of T for the same ESI set.",
         "Metamorphic relations need no reference; scalar multiplication uses the reference multiplier.",
         "DESIGN.md 5/C09"),
 "C18": ("metamorphic/structural proptest over repair windows (short, and longer than 2^16 / 2^17 packets) and plan instances",
         "Generated windows (incl. ending at ESI 2^24-1), overlapping window pairs, plan instances and multi-block objects: window == singles, overlaps agree, IDs (block, K+s+i), payload == reference Enc over the encoder's intermediate symbols, encoders from equal plans ==, object packet list structure.",
         "Sampled; ties to the RFC symbol through C04's certified intermediate symbols.",
         "DESIGN.md 5/C18"),
 "C02": ("proptest over arrival sequences (random; oracle-constructed runs of rank-deficient prefixes, also in the debug-assertion profile; bulk exactly-K sets on small blocks; single batches of up to 140 000 symbols); oracle = independent incremental GF(256) rank of the RFC constraint matrix, checked at every prefix, both directions",
         "For generated arrival sequences (source/repair mixes, repair ESIs over the whole 24-bit range, overheads straddling the binary-only fast-path trigger, all three back-ends) the decoder's Some/None is compared after every packet with 'all source received or rank = L', the rank coming from an independent elimination over reference-generated rows; large blocks are checked with a structured rank routine at selected set sizes.",
         "Rank oracle rows come from the reference model (trusted tables). Exact prefix oracle for K <= 300/600; structured rank up to K'=2000 quick / 10000 thorough.",
         "DESIGN.md 5/C02"),
 "C03": ("random sampling + exact one-sided binomial test at alpha=1e-9 against the advertised thresholds",
         "3.3e6 (quick) / 6.6e7 (thorough) trials of exactly K+h distinct uniformly drawn symbols are decoded by the real decoder; the failure counts are tested, pooled and per stratum / K-group, against 1e-2, 1e-4, 1e-5. The measured rates (and their ~256x ratios) are reported.",
         "Statistical: only degradations that push the rate above the advertised bound are detected; false-alarm probability < 1e-9 per test.",
         "DESIGN.md 5/C03"),
 "C04": ("proptest differential vs. independent RFC 6330 reference encoder (plain GF(256) elimination); certificate checking over all 477 block sizes and further large K; table digests",
         "Generated (K, T, data, construction, ESIs): source packets, intermediate symbols and repair payloads are compared byte for byte with a reference written from the RFC that shares no code with the crate (direct solve up to K'=300 quick / 1500 thorough); for any K up to 56403 the crate's intermediate symbols are certified against all L constraint rows and repair payloads recomputed with the reference Tuple/Enc; V0..V3/Table 2 pinned by SHA-256, Deg checked on all 2^20 inputs.",
         "V0..V3 and Table 2 are trusted as of the pinned commit (no second source offline). Sampled over data/T/ESIs.",
         "DESIGN.md 5/C04"),
 "C06": ("exhaustive enumeration over the 477 K' x back-end x mode, oracle = reference constraint rows",
         "Every K' (and K'-1) is built by direct solve and by plan replay on the sparse back-end (all K') and dense back-end (K' <= 6000 quick, all thorough); every set of intermediate symbols is checked against all LDPC/HDPC/LT relations evaluated by the reference; direct == replay, dense == sparse, production plan == direct.",
         "Exhaustive in K' only; data sampled (linearity is C09). Constraint rows come from the reference model (trusted tables).",
         "DESIGN.md 5/C06"),
 "C10": ("exhaustive enumeration vs. polynomial reference",
         "Exhaustive: all 256^2 pairs and 256^3 triples of the octet operators and all derived tables are compared with carry-less multiplication modulo 0x11D; the finite domain is covered completely, so this is as strong as testing gets for this property.",
         "Trusts the 20-line shift-and-reduce reference multiplier (unit-tested: generator order, inverses).",
         "DESIGN.md 5/C10"),
}
PENDING = {}  # id -> reason

props = [json.loads(l) for l in open("properties.jsonl")]
hooks = subprocess.run(["git","-C","/repo","log","--format=%H %s"],capture_output=True,text=True).stdout.splitlines()
hook_commits = [l.split()[0] for l in hooks if " verif hooks:" in l]
checks = []
for p in props:
    pid = p["id"]
    if pid in CHECKS:
        tech, text, note, ref = CHECKS[pid]
        checks.append({
          "property_id": pid,
          "quick_cmd": f"./check {pid} quick",
          "thorough_cmd": f"./check {pid} thorough",
          "evidence_file": f"/verif/evidence/{pid}.json",
          "replay_cmd_template": f"./check {pid} --replay {{path}}",
          "engine": "rqv",
          "level_claimed": {"category": "exploration", "text": text, "design_ref": ref},
          "level_note": note,
          "technique": tech,
        })
na = [{"property_id": p["id"], "reason": PENDING.get(p["id"], "check not built yet in this session (work in progress; see DESIGN.md section 5 for the planned generated-input check)")}
      for p in props if p["id"] not in CHECKS]
m = {
 "version": 1,
 "setup_cmd": "cd /verif && CARGO_NET_OFFLINE=true ./tools/setup.sh",
 "hooks": {
   "guard": "cargo feature `verif` of the raptorq crate (off by default)",
   "enable": "harness crates depend on raptorq by path with features [\"verif\", \"benchmarking\"] (no_std builds: default-features=false, features [\"verif\"])",
   "baseline_off_cmd": "cd /repo && cargo test --workspace --no-fail-fast --offline",
   "source_commits": hook_commits,
   "add_only": True,
 },
 "engines": [
   {"name": "rqv", "path": "/verif/harness/rqv", "serves_properties": sorted(CHECKS), "kind_free_text": "Rust binary (built in profiles release and chk = release+debug-assertions+overflow-checks): proptest TestRunner shards (fixed seeds, shrinking), exhaustive enumerators, controlled scheduler, guard-page child process, independent RFC 6330 reference model"},
   {"name": "digest", "path": "/verif/harness/digest", "serves_properties": ["C07"], "kind_free_text": "standalone Rust binary built in 4 cargo configurations (release/chk x std/no_std); prints per-(case, configuration) SHA-256 digests of a seeded workload"},
 ],
 "checks": checks,
 "not_applicable": na,
 "notes": "All checks are generated-input searches against explicit oracles (property-based testing / enumeration / fuzzing). Exit 2 = inconclusive (build failure, watchdog).",
}
json.dump(m, open("MANIFEST.json","w"), indent=1)
print("wrote MANIFEST.json:", len(checks), "checks,", len(na), "not_applicable")

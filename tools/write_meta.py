#!/usr/bin/env python3
# usage: write_meta.py <seeded-name> <property> <breaks> <needs> <round-note> <check=how>...
import json,sys
name,prop,breaks,needs,src=sys.argv[1:6]
caught={}
for a in sys.argv[6:]:
    k,v=a.split('=',1); caught[k]=v
meta={"property":prop,"breaks":breaks,"needs_to_manifest":needs,"source":src,
 "confirmed_by_me":"in the scratch worktree: lib suite 60 passed with the change; demo fails with / passes without (verify.log); then tools/try_seeded.sh (git -C /repo apply; ./check ...; git -C /repo checkout -- .)",
 "caught_by":caught}
json.dump(meta,open(f"/verif/seeded/{name}/meta.json","w"),indent=1)
print("wrote",name)

#!/usr/bin/env bash
# usage: verify_seeded.sh <name> <worktree>   -- independent confirmation of a seeded change
# 1. with the change: build, suite passes, demo fails; 2. without: demo passes. Copies the files.
set -u
NAME=$1; WT=$2
OUT=/verif/seeded/$NAME
mkdir -p "$OUT"
cp "$WT/seeded/patch.diff" "$OUT/patch.diff"
cp "$WT/seeded/seeded_demo.rs" "$OUT/seeded_demo.rs" 2>/dev/null || cp "$WT/tests/seeded_demo.rs" "$OUT/seeded_demo.rs"
cp "$WT/seeded/NOTES.md" "$OUT/NOTES.agent.md" 2>/dev/null
LOG=$OUT/verify.log
: > "$LOG"
cd "$WT" || exit 2
export CARGO_NET_OFFLINE=true
FEAT=""
grep -q "benchmarking" "$OUT/NOTES.agent.md" 2>/dev/null && grep -qi "features benchmarking" "$OUT/NOTES.agent.md" && FEAT="--features benchmarking"
git checkout -q -- src
git apply "$OUT/patch.diff" || { echo "PATCH DOES NOT APPLY" >> "$LOG"; exit 1; }
mkdir -p tests; cp "$OUT/seeded_demo.rs" tests/seeded_demo.rs
echo "== with change: lib suite" >> "$LOG"
cargo test --offline --lib 2>&1 | grep -E "test result|FAILED|failed" | head -5 >> "$LOG"
echo "== with change: demo $FEAT" >> "$LOG"
cargo test --offline $FEAT --test seeded_demo 2>&1 | grep -E "test result|panicked" | head -5 >> "$LOG"
git checkout -q -- src
echo "== without change: demo $FEAT" >> "$LOG"
cargo test --offline $FEAT --test seeded_demo 2>&1 | grep -E "test result|panicked" | head -5 >> "$LOG"
git apply "$OUT/patch.diff"
echo "== done" >> "$LOG"
cat "$LOG"
